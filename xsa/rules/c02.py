"""C02 - generated classes faithful to the XML Schema (vocabulary and scheduling clauses only)."""

from __future__ import annotations

import ast
import re

from ..cfg import build_cfg, calls_in, node_calls
from ..core import Ctx, property_info, rule, share
from ..model import AnalysisError, FuncInfo, const_str, walk_no_nested
from ..q import Dispatch, keyed_values, leaf_conditions, value_texts, cmp_atom, node_containing, reach_table, L, call_name_of, control_deps, dep_texts, expand, family, raw_forms, subject, dict_literals, flow_conditions, flows, A, asrc, enum_members, is_self_attr, kwarg, stores, unparse
from .c12 import renumbering_is_last

FIL = "xsdata.formats.dataclass.filters:Filters"
BLD = "xsdata.formats.dataclass.models.builders:XmlVarBuilder"

property_info(
    "C02",
    explanation="The generator cannot run in this sandbox; what is decided is agreement between its stages: the field-metadata vocabulary emitted by the generator, "
    "read by the runtime binding builder and documented in docs/models/fields.md is one vocabulary; every restriction key an XSD model can produce is a field "
    "of Restrictions; the tag -> field-kind table is total over its domain; handlers reach other classes only through the container's step-aware lookups; "
    "attributes always carry their namespace explicitly (the runtime never lets them inherit it); substitution groups are followed transitively; sequence "
    "renumbering is scheduled last.",
    decides="vocabulary agreement generator/runtime/docs, restriction-key membership, tag table totality, pipeline typestate (who may read container.data), "
    "namespace-inheritance agreement between Filters.field_metadata and XmlVarBuilder.resolve_namespaces",
    not_decided="that every schema-valid document parses and re-serializes faithfully with the generated classes; option independence of accepted documents",
)

share("C02", "C02.R5", renumbering_is_last)

VALIDATION_ONLY = {"min_occurs", "max_occurs", "min_exclusive", "min_inclusive", "min_length", "max_exclusive", "max_inclusive", "max_length", "total_digits", "fraction_digits",
                   "length", "white_space", "pattern", "explicit_timezone"}


def _const_key_reads(fn: ast.AST) -> set[str]:
    """Constant string keys read from a plain local / parameter mapping: x.get("k"), x["k"] (load), x.pop("k")."""
    out: set[str] = set()
    for c in calls_in(fn):
        if isinstance(c.func, ast.Attribute) and c.func.attr in ("get", "pop") and isinstance(c.func.value, ast.Name) and c.args and isinstance(c.args[0], ast.Constant) and isinstance(c.args[0].value, str):
            out.add(c.args[0].value)
    for n in walk_no_nested(fn):
        if isinstance(n, ast.Subscript) and isinstance(n.value, ast.Name) and isinstance(n.slice, ast.Constant) and isinstance(n.slice.value, str) and isinstance(n.ctx, ast.Load):
            out.add(n.slice.value)
    return out


def _runtime_reads(ctx: Ctx) -> tuple[set[str], set[str]]:
    b = ctx.repo.func(f"{BLD}.build")
    reads = _const_key_reads(b.node)
    bc = ctx.repo.func(f"{BLD}.build_choices")
    creads = _const_key_reads(bc.node)
    dc = ctx.repo.func("xsdata.formats.dataclass.compat:Dataclasses.default_choice_value")
    creads |= _const_key_reads(dc.node)
    return reads, creads


def _restriction_fields(ctx: Ctx) -> list[str]:
    return list(ctx.repo.cls("xsdata.codegen.models:Restrictions").ann)


def _asdict_skips(ctx: Ctx) -> set[str]:
    from .c12 import asdict_skipped_keys

    return asdict_skipped_keys(ctx)


@rule("C02.R1")
def metadata_vocabulary(ctx: Ctx) -> None:
    """Keys the generator emits into field metadata = keys the runtime builder reads (binding keys) + declared validation-only facets; all documented."""
    fm = ctx.repo.func(f"{FIL}.field_metadata")
    fc = ctx.repo.func(f"{FIL}.field_choices")
    lit = set()
    for fi in (fm,):
        for n in walk_no_nested(fi.node):
            if isinstance(n, ast.Dict):
                lit |= {k.value for k in n.keys if isinstance(k, ast.Constant)}
            if isinstance(n, ast.Subscript) and isinstance(n.value, ast.Name) and isinstance(n.slice, ast.Constant) and isinstance(n.ctx, ast.Store):
                lit.add(n.slice.value)
    clit = set()
    for n in [x for f_ in family(ctx.repo, fc) for x in walk_no_nested(f_.node)]:
        if isinstance(n, ast.Dict):
            clit |= {k.value for k in n.keys if isinstance(k, ast.Constant)}
        if isinstance(n, ast.Subscript) and isinstance(n.value, ast.Name) and isinstance(n.ctx, ast.Store):
            clit.add(n.slice.value if isinstance(n.slice, ast.Constant) else "default_factory" if "FACTORY_KEY" in unparse(n.slice) else unparse(n.slice))
    rfields = set(_restriction_fields(ctx)) - _asdict_skips(ctx) | {"required", "min_occurs", "max_occurs"}
    emitted = lit | rfields
    cemitted = clit | rfields
    reads, creads = _runtime_reads(ctx)
    ctx.floor("metadata keys read by the runtime", len(reads), 11)
    doc = ctx.repo.read("docs/models/fields.md")
    documented = set(re.findall(r"^### `([a-z_]+)`", doc, re.M))
    ctx.floor("documented metadata keys", len(documented), 10)
    binding = (reads | {"choices"}) - {"doc"}
    for k in sorted(emitted - VALIDATION_ONLY - {"doc"}):
        ctx.ob(f"emitted field metadata key `{k}` is read by XmlVarBuilder.build", k in reads, at=fm, construct=f"emitted {k}", msg="the generator writes a binding key the runtime ignores (renamed on one side only)")
    for k in sorted(reads):
        ctx.ob(f"runtime metadata key `{k}` is emitted by the generator", k in emitted, at=ctx.repo.func(f"{BLD}.build"), construct=f"read {k}", msg="the runtime reads a key the generator never writes: generated classes cannot express it")
        if k not in ("choices",):
            ctx.ob(f"runtime metadata key `{k}` is documented in docs/models/fields.md", k in documented, at=ctx.repo.func(f"{BLD}.build"), construct=f"documented {k}", msg="undocumented binding key")
    for k in sorted(cemitted - VALIDATION_ONLY - {"doc"}):
        ok = k in creads or k in reads
        ctx.ob(f"emitted choice metadata key `{k}` is read by the runtime", ok, at=fc, construct=f"choice emitted {k}", msg="choice key ignored by the runtime")
    for k in sorted(documented):
        ctx.ob(f"documented key `{k}` is read by the runtime", k in reads, at=ctx.repo.func(f"{BLD}.build"), construct=f"doc {k}", msg="documented key has no effect")
    # `type` values: attr.xml_type comes from xml_type_map (R3); None => default kind
    fmd = ctx.repo.func(f"{FIL}.filter_metadata")
    gf = build_cfg(fmd.node)
    conds = [t.ast for t in gf.nodes if t.kind == "test"]
    for comp in [x for x in walk_no_nested(fmd.node) if isinstance(x, ast.comprehension)]:
        for c in comp.ifs:
            conds += list(c.values) if isinstance(c, ast.BoolOp) and isinstance(c.op, ast.And) else [c]
    dropped = {repr(c.comparators[0].value) for c in conds if isinstance(c, ast.Compare) and len(c.ops) == 1 and isinstance(c.ops[0], (ast.IsNot, ast.Is)) and isinstance(c.comparators[0], ast.Constant)}
    other = [c for c in conds if not (isinstance(c, ast.Compare) and len(c.ops) == 1 and isinstance(c.ops[0], (ast.IsNot, ast.Is)) and isinstance(c.comparators[0], ast.Constant))]
    ctx.ob("filter_metadata drops exactly None and False values (the runtime defaults) - by identity, never by truthiness", dropped == {"None", "False"} and not other, at=fmd, construct="filter_metadata", msg=f"a meaningful value is dropped (e.g. 0 or ''): filters on {sorted(dropped)} + {len(other)} other conditions")


@rule("C02.R2")
def restriction_vocabulary(ctx: Ctx) -> None:
    """Every key an XSD model's get_restrictions can return is a field of codegen.models.Restrictions."""
    fields_ = set(_restriction_fields(ctx))
    ctx.floor("Restrictions fields", len(fields_), 20)
    n = 0
    for fi in ctx.repo.funcs_in("xsdata.models.xsd", "xsdata.models.wsdl", "xsdata.models.dtd", "xsdata.models.mixins"):
        if fi.name != "get_restrictions":
            continue
        n += 1
        keys: set[str] = set()
        for node in walk_no_nested(fi.node):
            if isinstance(node, ast.Dict):
                keys |= {k.value for k in node.keys if isinstance(k, ast.Constant) and isinstance(k.value, str)}
            if isinstance(node, ast.Subscript) and isinstance(node.slice, ast.Constant) and isinstance(node.ctx, ast.Store) and isinstance(node.slice.value, str):
                keys.add(node.slice.value)
            if isinstance(node, ast.Call) and isinstance(node.func, ast.Attribute) and node.func.attr == "update":
                keys |= {k.arg for k in node.keywords if k.arg}
            if isinstance(node, ast.Assign) and isinstance(node.value, ast.Tuple) and all(isinstance(e, ast.Constant) and isinstance(e.value, str) for e in node.value.elts) and isinstance(node.targets[0], ast.Name):
                keys |= {e.value for e in node.value.elts}
        for k in sorted(keys):
            ctx.ob(f"{fi.qual.split(':')[1]}: restriction key `{k}` is a Restrictions field", k in fields_, at=fi, construct=f"restriction {k}",
                   msg="Restrictions.from_element(**get_restrictions()) raises TypeError for every schema using this construct")
    ctx.floor("get_restrictions implementations", n, 12)
    mg = ctx.repo.func("xsdata.codegen.models:Restrictions.merge")
    mkeys = {e.value for node in walk_no_nested(mg.node) if isinstance(node, ast.Tuple) for e in node.elts if isinstance(e, ast.Constant) and isinstance(e.value, str)}
    for k in sorted(mkeys):
        ctx.ob(f"Restrictions.merge key `{k}` is a Restrictions field", k in fields_, at=mg, construct=f"merge {k}", msg="merge touches an unknown attribute")
    fe = ctx.repo.func("xsdata.codegen.models:Restrictions.from_element")
    ok = any(isinstance(c.func, ast.Name) and c.func.id == "cls" and any(k.arg is None and any(isinstance(x, ast.Call) and call_name_of(x) == "get_restrictions" for x in ast.walk(expand(fe.node, k.value))) for k in c.keywords) for c in calls_in(fe.node))
    ctx.ob("Restrictions.from_element = cls(**element.get_restrictions())", ok, at=fe, construct="from_element", msg="restriction construction changed")
    # occurrence tables of attributes (use) equal XSD
    at = ctx.repo.func("xsdata.models.xsd:Attribute.get_restrictions")
    d = Dispatch(at.node, is_subject=subject(at.node, "self.use"))
    table = {}
    for key in ("UseType.REQUIRED", "UseType.PROHIBITED", None):
        occ = [x for x in d.dicts_under(at, key) if "min_occurs" in x]
        table[key] = (occ[0]["min_occurs"], occ[0]["max_occurs"]) if len(occ) == 1 and "max_occurs" in occ[0] else None
    use_keys = any(isinstance(k, str) and k.startswith("UseType.") for k in d.keys)
    if not use_keys:
        # table form: MODULE_TABLE.get(self.use, DEFAULT) / MODULE_TABLE[self.use] with dict displays as entries
        def _occ(e: ast.expr | None):
            if isinstance(e, ast.Name):
                e = at.module.globals.get(e.id)
            if isinstance(e, ast.Dict):
                m_ = {k.value: {unparse(v)} for k, v in zip(e.keys, e.values) if isinstance(k, ast.Constant)}
                return (m_["min_occurs"], m_["max_occurs"]) if "min_occurs" in m_ and "max_occurs" in m_ else None
            return None

        table = {}
        for c in calls_in(at.node):
            tab = at.module.globals.get(c.func.value.id) if isinstance(c.func, ast.Attribute) and c.func.attr == "get" and isinstance(c.func.value, ast.Name) else None
            if isinstance(tab, ast.Dict) and len(c.args) == 2 and unparse(c.args[0]) == "self.use":
                table = {unparse(k): _occ(v) for k, v in zip(tab.keys, tab.values) if k is not None}
                table[None] = _occ(c.args[1])
        if not table:
            ctx.abstain("attribute use -> occurrences table of Attribute.get_restrictions", at=at, why="neither a dispatch on self.use nor a lookup in a constant table")
    if use_keys or table:
        ok = table == {"UseType.REQUIRED": ({"1"}, {"1"}), "UseType.PROHIBITED": ({"0"}, {"0"}), None: ({"0"}, {"1"})}
        ctx.ob("xs:attribute use -> occurrences: required (1,1), prohibited (0,0), optional (0,1)", ok, at=at, construct="attribute use table", msg=f"attribute occurrence table changed: {table}")


@rule("C02.R3")
def tag_kind_table(ctx: Ctx) -> None:
    """xml_type_map maps Tag constants to XmlType constants; GLOBAL_TYPES are Tag constants."""
    m = ctx.repo.module("xsdata.codegen.models")
    tm = m.globals.get("xml_type_map")
    if not isinstance(tm, ast.Dict):
        raise AnalysisError("C02.R3: xml_type_map is not a dict literal")
    tags = set(enum_members(ctx.repo.cls("xsdata.models.enums:Tag").node))
    kinds = set(enum_members(ctx.repo.cls("xsdata.formats.dataclass.models.elements:XmlType").node))
    expect = {"ANY": "WILDCARD", "ANY_ATTRIBUTE": "ATTRIBUTES", "ATTRIBUTE": "ATTRIBUTE", "CHOICE": "ELEMENTS", "ELEMENT": "ELEMENT"}
    got = {}
    for k, v in zip(tm.keys, tm.values):
        kk, vv = unparse(k).split(".")[-1], unparse(v).split(".")[-1]
        got[kk] = vv
        ctx.ob(f"xml_type_map: Tag.{kk} -> XmlType.{vv} are constants of their classes", kk in tags and vv in kinds, at=m, node=k, construct=f"map {kk}", msg="unknown constant")
    for k, v in expect.items():
        ctx.ob(f"Tag.{k} maps to XmlType.{v}", got.get(k) == v, at=m, node=tm, construct=f"kind {k}", msg=f"maps to {got.get(k)}: fields derived from xs:{k.lower()} get the wrong binding kind")
    gt = m.globals.get("GLOBAL_TYPES")
    for e in (gt.elts if isinstance(gt, ast.Tuple) else []):
        ctx.ob(f"GLOBAL_TYPES member {unparse(e)} is a Tag constant", unparse(e).split(".")[-1] in tags, at=m, node=e, construct=f"global {unparse(e)}", msg="unknown tag")
    xt = ctx.repo.cls("xsdata.codegen.models:Attr").methods.get("xml_type")
    ctx.ob("Attr.xml_type = xml_type_map.get(self.tag) (None = Text)", xt is not None and any(unparse(c.func) == "xml_type_map.get" and c.args and unparse(c.args[0]) == "self.tag" for c in calls_in(xt.node)), at=xt or m, construct="xml_type lookup", msg="kind lookup changed")


ALLOWED_DIRECT = {
    "ClassContainer", "ContainerInterface", "ClassValidator",  # the container itself; validation before step 0
    "MergeDuplicateClasses", "RenameDuplicateClasses", "ValidateReferences", "DesignateClassPackages", "FilterClasses",  # run between / after the steps on whole-container views
}
ALLOWED_FIRST = {
    ("CreateWrapperFields", "find_source_attr"): "FINALIZE look-up upstream deliberately makes without processing the class",
    ("SanitizeAttributesDefaultValue", "find_inner_type"): "FINALIZE look-up of an already processed type",
    ("DesignateClassPackages", "sort_classes"): "designator, after FINALIZE",
}


@rule("C02.R4")
def pipeline_typestate(ctx: Ctx) -> None:
    """Handlers reach other classes only through container.find / find_inner (which process a dependency up to the current step first)."""
    n = 0
    for fi in ctx.repo.funcs_in("xsdata.codegen.handlers", "xsdata.codegen.mixins", "xsdata.codegen.utils"):
        cname = fi.cls.name if fi.cls else ""
        for node in walk_no_nested(fi.node):
            if isinstance(node, ast.Attribute) and node.attr == "data" and unparse(node.value).endswith("container"):
                n += 1
                ctx.ob(f"{cname}.{fi.name}: container.data is not read directly", cname in ALLOWED_DIRECT, at=fi, node=node,
                       msg="a class fetched from container.data may not have been processed up to the current step (e.g. a base class that is not flattened yet)")
            if isinstance(node, ast.Call) and isinstance(node.func, ast.Attribute) and node.func.attr == "first" and unparse(node.func.value).endswith("container"):
                n += 1
                ctx.ob(f"{cname}.{fi.name}: container.first(...) is used only at a confirmed site", (cname, fi.name) in ALLOWED_FIRST or cname in ALLOWED_DIRECT, at=fi, node=node,
                       msg="container.first returns the class without processing it up to the current step")
    finds = sum(1 for fi in ctx.repo.funcs_in("xsdata.codegen.handlers", "xsdata.codegen.mixins") for c in calls_in(fi.node)
                if isinstance(c.func, ast.Attribute) and c.func.attr in ("find", "find_inner") and unparse(c.func.value).endswith("container"))
    ctx.ob(f"handlers look classes up through container.find / find_inner ({finds} sites)", finds >= 6, at=ctx.repo.func("xsdata.codegen.container:ClassContainer.find"), construct="find sites", msg="lookup discipline vanished")
    behind = cmp_atom("_.status", "<", "self.step")
    for fname, what, msg in (("find", "container.find processes a dependency whose status is behind the current step before returning it", "find returns unprocessed classes"),
                             ("find_inner", "container.find_inner does the same for inner classes", "inner classes returned unprocessed")):
        cf = ctx.repo.func(f"xsdata.codegen.container:ClassContainer.{fname}")
        pcs = [c for c in calls_in(cf.node) if call_name_of(c) == "process_class"]
        ctx.ob(f"{what} (process_class is called)", bool(pcs), at=cf, construct=f"{fname} processes", msg=msg)
        for c in pcs:
            tab = reach_table(cf, c, [behind])
            if tab is not None:
                ctx.ob(what, tab == {(True,): True, (False,): False}, at=cf, node=c, construct=f"{fname} processes when behind", msg=f"{msg}: process_class runs under {tab}")
        if fname == "find":
            g = build_cfg(cf.node)
            again = [n for n in g.stmts() if any(unparse(c.func) == "self.find" for c in node_calls(n))]
            pn = [node_containing(g, c) for c in pcs]
            ctx.ob("container.find looks the class up again after processing it (the class list may have changed)", any(p is not None and a.id in g.reachable([p.id]) for a in again for p in pn), at=cf,
                   construct="find again", msg="find returns a stale row after processing")
    pc = ctx.repo.func("xsdata.codegen.container:ClassContainer.process_class")
    g = build_cfg(pc.node)
    status_stores = [(g.node_of(st), {A(x) for x in raw_forms(pc, st, v)}) for st, tgt, v in stores(pc.node) if isinstance(tgt, ast.Attribute) and tgt.attr == "status" and v is not None]
    start = [n for n, v in status_stores if n is not None and A("Status(step)") in v]
    done = [n for n, v in status_stores if n is not None and v & {A("Status(step + 1)"), A("Status(1 + step)")}]
    procs = [n for n in g.stmts() if any(isinstance(c.func, ast.Attribute) and c.func.attr == "process" for c in node_calls(n))]
    inner = [n for n in g.stmts() if any(unparse(c.func) == "self.process_class" for c in node_calls(n))]
    uses_table = any(isinstance(c.func, ast.Attribute) and c.func.attr == "get" and unparse(c.func.value) == "self.processors" and c.args and unparse(c.args[0]) == "step" for c in calls_in(pc.node)) or any(
        isinstance(x, ast.Subscript) and unparse(x.value) == "self.processors" and unparse(x.slice) == "step" for x in walk_no_nested(pc.node))
    ok = len(start) == 1 and len(done) == 1 and bool(procs) and bool(inner) and uses_table \
        and all(g.must_pass(g.entry, p.id, [start[0].id]) for p in procs + inner) and all(done[0].id in g.reachable([p.id]) and p.id not in g.reachable([done[0].id]) for p in procs + inner) \
        and g.must_pass(g.entry, g.exit, [done[0].id], normal_only=True)
    for n_ in inner:
        tab = reach_table(pc, n_, [cmp_atom("_.status", "<", "_")])
        if tab is not None:
            ok = ok and tab == {(True,): True, (False,): False}
    ctx.ob("process_class marks the class in-progress, runs the step's processors, recurses into inner classes that are behind, then marks it done", ok, at=pc, construct="process_class", msg="status protocol changed")
    # every exported handler is instantiated exactly once in the container
    hm = ctx.repo.module("xsdata.codegen.handlers")
    allv = hm.globals.get("__all__")
    exported = [e.value for e in allv.elts] if isinstance(allv, (ast.List, ast.Tuple)) else []
    cm = ctx.repo.module("xsdata.codegen.container")
    counts = {}
    # a handler is "instantiated" where its class is referenced in the container module: called directly, or listed in a collection of
    # classes that is instantiated in a loop / comprehension.  Copies that the helper-inlining view put into callers are not counted twice.
    for node in ast.walk(cm.tree):
        if getattr(node, "_xsa_origin", None) in ctx.repo.functions:  # the copy of a helper that is still in the model
            continue
        refs = []
        if isinstance(node, ast.Call) and isinstance(node.func, ast.Name):
            refs = [node.func]
        elif isinstance(node, (ast.Tuple, ast.List)) and isinstance(node.ctx, ast.Load):
            refs = [e for e in node.elts if isinstance(e, ast.Name)]
        for r in refs:
            if r.id in exported:
                counts[r.id] = counts.get(r.id, 0) + 1
    ctx.floor("exported handlers", len(exported), 24)
    for h in exported:
        ctx.ob(f"handler {h} is instantiated exactly once by the container", counts.get(h) == 1, at=cm, construct=f"handler {h}", msg=f"instantiated {counts.get(h, 0)} times: a processing step is skipped or repeated")
    ctx.note("C02.R4 direct access sites", n)


@rule("C02.R6")
def attribute_namespace_agreement(ctx: Ctx) -> None:
    """The generator omits a field's namespace only for kinds that inherit the class namespace at run time (elements / wildcards), never for attributes."""
    rn = ctx.repo.func(f"{BLD}.resolve_namespaces")
    # under which field kinds can `namespace = parent_namespace` run?  (partial evaluation over the xml_type parameter)
    dk = Dispatch(rn.node, is_subject=lambda e: isinstance(e, ast.Name) and e.id == "xml_type")
    inh_nodes = [n.id for n in dk.g.stmts() if isinstance(n.ast, ast.Assign) and isinstance(n.ast.targets[0], ast.Name) and unparse(n.ast.value) == "parent_namespace"]  # whichever local takes the inherited value
    default_ids = {n.id for n in dk.under(None)}
    inherit = {k.split(".")[-1] for k in dk.keys if any(i in {n.id for n in dk.under(k)} for i in inh_nodes)} if inh_nodes and not any(i in default_ids for i in inh_nodes) else {"<every kind>"}
    ctx.ob("runtime: only ELEMENT and WILDCARD fields inherit the parent namespace", inherit == {"ELEMENT", "WILDCARD"}, at=rn, construct="runtime inheritance", msg=f"inheriting kinds {sorted(inherit)}")
    fm = ctx.repo.func(f"{FIL}.field_metadata")
    # partial evaluation of field_metadata under "the field is an attribute": the value stored under the "namespace" key
    def is_attr_flag(t: ast.AST):
        if isinstance(t, ast.Attribute) and t.attr == "is_attribute" and isinstance(t.value, ast.Name) and t.value.id == "attr":
            return frozenset(["attribute"]), True
        return None

    da = Dispatch(fm.node, classify=is_attr_flag)
    g = da.g
    ok = False
    vals_attr: set[str] = set()
    for n in da.under("attribute"):
        if n.kind != "stmt" or n.ast is None:
            continue
        for dct in [x for x in ast.walk(n.ast) if isinstance(x, ast.Dict)]:
            keys = {k.value: v for k, v in zip(dct.keys, dct.values) if isinstance(k, ast.Constant)}
            if "namespace" in keys and "type" in keys:
                vals_attr |= {unparse(x) for x in da.values_under(fm, "attribute", n, keys["namespace"])}
        for st_ in [n.ast] if isinstance(n.ast, ast.Assign) else []:
            for t_ in st_.targets:
                if isinstance(t_, ast.Subscript) and isinstance(t_.slice, ast.Constant) and t_.slice.value == "namespace":
                    vals_attr |= {unparse(x) for x in da.values_under(fm, "attribute", n, st_.value)}
    ok = vals_attr == {"attr.namespace"}
    ctx.ob("generator: an attribute's namespace is always written (attributes never inherit the class namespace)", ok, at=fm, construct="attribute namespace explicit",
           msg="a qualified attribute in the class's own namespace is emitted without `namespace`: the runtime binds it unqualified and rejects / mis-writes t:lang=\"en\"")
    fc0 = ctx.repo.func(f"{FIL}.field_choices")
    ok = False
    for fc in family(ctx.repo, fc0):
        leaves = [(L(fc, leaf), leaf_conditions(fc, n, leaf, chain)) for n, v in keyed_values(fc, "namespace") for leaf, chain in flows(fc, n, v)]
        if leaves:
            differs = lambda conds, want: any(("_.namespace" in t and "!=" in t and pol == want) or ("_.namespace" in t and "==" in t and "!=" not in t and pol != want) for t, pol in conds)  # noqa: E731
            ok = {x for x, _ in leaves} == {"_.namespace", "None"} and all(differs(c, True) for x, c in leaves if x == "_.namespace")
    ctx.ob("generator: a choice's namespace is omitted only when equal to the parent namespace (choices are elements / wildcards)", ok, at=fc0, construct="choice namespace", msg="choice namespace rule changed")
    # substitution groups are followed transitively
    cs = ctx.repo.func("xsdata.codegen.handlers.add_attribute_substitutions:AddAttributeSubstitutions.create_substitution")
    ats = [c for c in calls_in(cs.node) if isinstance(c.func, ast.Name) and c.func.id == "AttrType"]
    ok = bool(ats) and all(kwarg(c, "substituted") is None or (isinstance(kwarg(c, "substituted"), ast.Constant) and kwarg(c, "substituted").value is False) for c in ats)
    ctx.ob("substitution attrs are created with un-substituted types (so their own substitution groups are expanded too)", ok, at=cs, construct="substitution fresh type",
           msg="a member whose head is itself a member of another group is never expanded: valid <t:square> children are rejected")
    pa = ctx.repo.func("xsdata.codegen.handlers.add_attribute_substitutions:AddAttributeSubstitutions.process_attribute")
    gp = build_cfg(pa.node)
    ins = [(n, c) for n in gp.stmts() for c in node_calls(n) if isinstance(c.func, ast.Attribute) and c.func.attr == "insert" and unparse(c.func.value).endswith(".attrs") and len(c.args) == 2]
    rec = [(n, c) for n in gp.stmts() for c in node_calls(n) if unparse(c.func) == "self.process_attribute" and len(c.args) == 2]
    ok = bool(ins) and bool(rec) and all(any(unparse(rc.args[1]) == unparse(ic.args[1]) and rn.id in gp.reachable([in_.id]) and gp.must_pass(in_.id, gp.exit, [rn.id] + [x.id for x in gp.nodes if x.kind == "for"], normal_only=True) for rn, rc in rec) for in_, ic in ins)
    ctx.ob("process_attribute recurses into every inserted substitution", ok, at=pa, construct="substitution recursion", msg="substitutions of substitutions are not added")
    marks = [st for st, tgt, v in stores(pa.node) if isinstance(tgt, ast.Attribute) and tgt.attr == "substituted" and isinstance(v, ast.Constant) and v.value is True]
    ok = bool(marks) and all(any(t == "_.substituted" and not pol for t, pol, _ in control_deps(pa, st)) for st in marks)
    ctx.ob("process_attribute marks a type substituted only after testing the flag (already substituted types are skipped)", ok, at=pa, construct="substituted flag", msg="flag protocol changed")


@rule("C02.R7")
def handler_state_discipline(ctx: Ctx) -> None:
    """Handler instances live for a whole generator run: substitution registration is unconditional and any memo they keep is keyed by everything its value depends on."""
    from .c14 import _control_sources, _flow_sources

    cs = ctx.repo.func("xsdata.codegen.handlers.add_attribute_substitutions:AddAttributeSubstitutions.create_substitutions")
    # the registration loops: over the container's classes and, inside, over each class's substitutions - in create_substitutions or in a
    # helper it delegates the iteration to
    ok = None
    for cs_ in family(ctx.repo, cs):
        g = build_cfg(cs_.node)
        outer = [n for n in g.nodes if n.kind == "for" and "self.container" in value_texts(cs_, n, n.ast.iter)]
        inner = [n for n in g.nodes if n.kind == "for" and any(t.endswith(".substitutions") for t in value_texts(cs_, n, n.ast.iter))]
        if len(outer) == 1 and len(inner) == 1:
            # the registration loop runs for every class: it depends on no test - except a test of the very collection it iterates (skipping
            # classes without substitutions is not a filter)
            ok = outer[0].id in {p_ for p_ in g.reachable([inner[0].id], forward=False)} and all(".substitutions" in unparse(t.ast) for _, _, t in control_deps(cs_, inner[0]))
            break
    if ok is None:
        ctx.abstain("registration loops of create_substitutions", at=cs)
        ok = True
    ctx.ob("create_substitutions registers the substitutions of EVERY class of the container (no tag filter)", ok, at=cs, construct="substitution registration",
           msg="the validator merges an element into its same-named complex type: filtering on the class tag drops those substitution-group members, and valid documents using them are rejected")
    n = 0
    for ci in ctx.repo.classes.values():
        if not ci.module.name.startswith("xsdata.codegen.handlers"):
            continue
        for m in ci.methods.values():
            if m.name in ("__init__",):
                continue
            for st, tgt, v in stores(m.node):
                if isinstance(tgt, ast.Subscript) and is_self_attr(tgt.value) and v is not None and not isinstance(st, (ast.AugAssign, ast.Delete)):
                    # a memo = the same attribute is also consulted in this function (check-then-build); plain registries are not memos
                    reads = [x for x in walk_no_nested(m.node) if is_self_attr(x, tgt.value.attr) and isinstance(x.ctx, ast.Load) and x is not tgt.value]
                    if not reads:
                        continue
                    n += 1
                    params = [a.arg for a in m.params if a.arg != "self"]
                    missing = sorted((_flow_sources(m, v, params) | _control_sources(m, st, params)) - _flow_sources(m, tgt.slice, params))
                    ctx.ob(f"{ci.name}.{m.name}: memo self.{tgt.value.attr}[{unparse(tgt.slice)[:30]}] is keyed by every parameter its value depends on", not missing, at=m, node=st,
                           msg=f"the stored value also depends on {missing}: whichever call comes first decides the answer for the rest of the run (e.g. an element and an attribute with the same qname)")
    ctx.note("C02.R7 handler memo stores", n)


@rule("C02.R8")
def nested_lookup_and_reference_resolution(ctx: Ctx) -> None:
    """find_nested is a breadth-first search (the nearest inner class of a name wins); an unprefixed substitutionGroup head is looked up in
    the prefix map (default namespace) like every other QName reference."""
    fn = ctx.repo.func("xsdata.codegen.utils:ClassUtils.find_nested")
    g = build_cfg(fn.node)
    # the work list: a local that is both extended / appended to and popped
    grown = {unparse(c.func.value) for c in calls_in(fn.node) if isinstance(c.func, ast.Attribute) and c.func.attr in ("append", "extend") and isinstance(c.func.value, ast.Name)}
    pops = [c for c in calls_in(fn.node) if isinstance(c.func, ast.Attribute) and c.func.attr in ("pop", "popleft") and unparse(c.func.value) in grown]
    if not pops:
        ctx.abstain("work list of find_nested", at=fn)
    for c in pops:
        fifo = c.func.attr == "popleft" or (c.func.attr == "pop" and len(c.args) == 1 and isinstance(c.args[0], ast.Constant) and c.args[0].value == 0)
        ctx.ob("find_nested takes the next class from the FRONT of the work list (breadth first: the nearest inner class wins)", fifo, at=fn, node=c, construct="find_nested fifo",
               msg="depth-first search: with the same name at two nesting depths the deeper anonymous type is bound to the field and valid documents are rejected")
    bs = ctx.repo.func("xsdata.codegen.mappers.schema:SchemaMapper.build_substitutions")
    gets = [c for f_ in family(ctx.repo, bs) for c in calls_in(f_.node) if isinstance(c.func, ast.Attribute) and c.func.attr == "get" and unparse(c.func.value).endswith("ns_map") and c.args and isinstance(c.args[0], ast.Name)]
    if not gets:
        ctx.abstain("prefix lookup of build_substitutions", at=bs)
    for c in gets:
        owner = next(f_ for f_ in family(ctx.repo, bs) if any(c is x for x in calls_in(f_.node)))
        p = c.args[0].id
        tab = reach_table(owner, c, [{p: True, f"{p} is not None": True, f"{p} is None": False}], raw=True)
        if tab is None:
            ctx.abstain("prefix guard of build_substitutions", at=bs)
        else:
            ctx.ob("build_substitutions looks an UNPREFIXED head up in the prefix map too (default namespace before target namespace)", tab == {(True,): True, (False,): True}, at=owner, node=c,
                   construct="substitution head namespace", msg="an unprefixed substitutionGroup head skips the default namespace declaration: the member is registered under a head that does not exist and its element is dropped")


@rule("C02.R9")
def own_prefix_bindings_precede_name_resolution(ctx: Ctx) -> None:
    """SchemaMapper resolves prefixed type / ref names against the class's accumulated prefix map (`target.ns_map`).  A member declaration may
    carry xmlns bindings of its own; the function that merges them (`T.ns_map.update(O.ns_map)`) must do so before it hands T to any routine
    that (transitively) reads `T.ns_map` - else the prefix silently falls back to the target namespace and the member is retyped."""
    mod = "xsdata.codegen.mappers.schema"
    funcs = {fi.name: fi for fi in ctx.repo.funcs_in(mod) if fi.cls is not None and fi.cls.name == "SchemaMapper"}
    if not funcs:
        raise AnalysisError("anchor vanished: SchemaMapper")

    def pnames(fi: FuncInfo) -> list[str]:
        return [a.arg for a in fi.pos_params if a.arg not in ("cls", "self")]

    def merges_of(fi: FuncInfo) -> list[tuple[ast.Call, str]]:
        out = []
        for c in calls_in(fi.node):
            f = c.func
            if isinstance(f, ast.Attribute) and f.attr == "update" and isinstance(f.value, ast.Attribute) and f.value.attr == "ns_map" and isinstance(f.value.value, ast.Name) \
                    and c.args and any(isinstance(x, ast.Attribute) and x.attr == "ns_map" for x in ast.walk(c.args[0])):
                out.append((c, f.value.value.id))
        return out

    def bound(c: ast.Call, callee: FuncInfo) -> dict[str, ast.expr]:
        ps = pnames(callee)
        m = {p: a for p, a in zip(ps, c.args) if not isinstance(a, ast.Starred)}
        m.update({k.arg: k.value for k in c.keywords if k.arg})
        return m

    def callee_of(c: ast.Call) -> FuncInfo | None:
        f = c.func
        if isinstance(f, ast.Attribute) and isinstance(f.value, ast.Name) and f.value.id in ("cls", "self", "SchemaMapper"):
            return funcs.get(f.attr)
        return None

    reads: set[tuple[str, str]] = set()
    for name, fi in funcs.items():
        ps = set(pnames(fi))
        writers = {id(c.func.value) for c, _t in merges_of(fi)}
        for x in walk_no_nested(fi.node):
            if isinstance(x, ast.Attribute) and x.attr == "ns_map" and isinstance(x.ctx, ast.Load) and isinstance(x.value, ast.Name) and x.value.id in ps and id(x) not in writers:
                reads.add((name, x.value.id))
    changed = True
    while changed:
        changed = False
        for name, fi in funcs.items():
            ps = set(pnames(fi))
            for c in calls_in(fi.node):
                cal = callee_of(c)
                if cal is None:
                    continue
                for p, a in bound(c, cal).items():
                    if (cal.name, p) in reads and isinstance(a, ast.Name) and a.id in ps and (name, a.id) not in reads:
                        reads.add((name, a.id))
                        changed = True
    n = 0
    for name, fi in funcs.items():
        ms = merges_of(fi)
        if not ms:
            continue
        g = build_cfg(fi.node)
        for mc, tname in ms:
            mn = node_containing(g, mc)
            if mn is None:
                continue
            for c in calls_in(fi.node):
                cal = callee_of(c)
                if cal is None or c is mc:
                    continue
                if not any((cal.name, p) in reads and isinstance(a, ast.Name) and a.id == tname for p, a in bound(c, cal).items()):
                    continue
                cn = node_containing(g, c)
                if cn is None:
                    continue
                n += 1
                ctx.ob(f"{name}: the member's own prefix bindings are merged into `{tname}.ns_map` before {cal.name}() resolves names against it", g.must_pass(g.entry, cn.id, {mn.id}), at=fi, node=c,
                       construct=f"scope merged before {cal.name}",
                       msg=f"{cal.name}({tname}, ...) can run before `{tname}.ns_map.update(...)`: a prefix declared on the member declaration itself is not in scope when its type / ref is resolved - the lookup falls back to the target "
                           "namespace, the type is reported absent and the field is silently retyped to str")
    ctx.note("C02.R9 resolution calls after a scope merge", n)
    if not n:
        ctx.abstain("scope merge of member declarations in SchemaMapper", at=next(iter(funcs.values())), why="no function both merges a member's ns_map into the class map and hands the class to a prefix-resolving routine")


@rule("C02.R10")
def text_carrier_is_never_an_xml_attribute(ctx: Ctx) -> None:
    """FlattenClassExtensions.get_or_create_attribute finds or creates the field that carries a simple-content base type (the text `value`
    field) or a wildcard.  An existing field of that name is reused only if it is not an XML attribute: a complexType with simpleContent may
    well declare an attribute called `value`; merging the text type into it loses the element text."""
    fi = ctx.repo.func("xsdata.codegen.handlers.flatten_class_extensions:FlattenClassExtensions.get_or_create_attribute")
    made = [c for c in calls_in(fi.node) if call_name_of(c) == "Attr"]
    if not made:
        ctx.abstain("creation branch of get_or_create_attribute", at=fi, why="no Attr(...) constructor call in the function")
        return
    for c in made:
        tab = reach_table(fi, c, [{"_ is None": True, "_ is not None": False}, cmp_atom("_.tag", "==", "Tag.ATTRIBUTE")])
        if tab is None:
            ctx.abstain("creation guard of get_or_create_attribute", at=fi)
            continue
        ctx.ob("get_or_create_attribute creates a fresh field when none exists and also when the one found is an XML attribute", tab[(True, False)] and tab[(True, True)] and tab[(False, True)], at=fi, node=c,
               construct="text carrier vs attribute",
               msg=f"(found is None, found.tag == ATTRIBUTE) -> creates: {sorted(tab.items())}: the base type of a simpleContent class that declares an attribute named like the text field ('value') is appended to that "
                   "attribute and no text field is generated - element text is silently dropped on serialization")
