"""C05 - primitive values <-> XSD lexical forms (table and discipline clauses)."""

from __future__ import annotations

import ast
import re

from ..cfg import build_cfg, calls_in, node_calls
from ..core import Ctx, property_info, rule, share
from ..exc import MayRaise
from ..model import AnalysisError, ClassInfo, FuncInfo, Module, dotted_name, norm_text, walk_no_nested
from ..q import callable_info, leaves_at, call_name_of, tests_raw, callable_leaves, callable_body, sort_calls, reach_table, reach_env, value_texts, passes, func_text, names_from_calls, return_values, stores, unparse

CONV = "xsdata.formats.converter"
ENUMS = "xsdata.models.enums"
DT = "xsdata.models.datatype"

property_info(
    "C05",
    explanation="Decides table agreement and discipline clauses of the converter: every Python type used by the datatype tables has a "
    "registered converter; the documented type priority equals the sort table; the strict test covers the types with non-canonical "
    "spellings; each converter's deserialize can only raise ConverterError (so the priority fall-through is never aborted); every "
    "lexical sink sees whitespace-normalised input.",
    decides="registry coverage, doc/table equality, strict-test coverage, converter exception discipline, whitespace normalisation before lexical sinks",
    not_decided="that printed spellings are XSD-valid for every value and that every valid lexical form yields the XSD value (value-level)",
)


def _registrations(ctx: Ctx) -> dict[str, ast.expr]:
    mod = ctx.repo.module(CONV)
    out: dict[str, ast.expr] = {}
    for st in mod.tree.body:
        if isinstance(st, ast.Expr) and isinstance(st.value, ast.Call):
            c = st.value
            if unparse(c.func) == "converter.register_converter" and len(c.args) == 2:
                out[unparse(c.args[0])] = c.args[1]
    if len(out) < 15:
        raise AnalysisError(f"C05: only {len(out)} module-level converter registrations found")
    return out


def _dict_keys(node: ast.expr | None) -> list[str]:
    return [unparse(k) for k in node.keys] if isinstance(node, ast.Dict) else []


@rule("C05.R1")
def registry_coverage(ctx: Ctx) -> None:
    """Every Python type named by the datatype tables has a module-level converter registration."""
    regs = _registrations(ctx)
    dt = ctx.repo.cls(f"{ENUMS}:DataType")
    members = {}
    for st in dt.node.body:
        if isinstance(st, ast.Assign) and isinstance(st.value, ast.Tuple) and len(st.value.elts) >= 2:
            members[st.targets[0].id] = st.value
    ctx.floor("DataType members", len(members), 45)
    for name, tup in members.items():
        tp = unparse(tup.elts[1])
        ctx.ob(f"DataType.{name}: python type {tp} has a registered converter", tp in regs or tp == "object", at=ctx.repo.module(ENUMS), node=tup,
               construct=f"DataType.{name} type {tp}", msg=f"no converter.register_converter({tp}, ...) at module level")
        if len(tup.elts) >= 4:
            wrapper = unparse(tup.elts[3])
            wc = ctx.repo.class_by_name.get(wrapper, [])
            ok = bool(wc) and any(b.split(".")[-1] == tp for b in wc[0].bases + wc[0].ext_bases)
            ctx.ob(f"DataType.{name}: wrapper {wrapper} subclasses the declared type {tp}", ok, at=ctx.repo.module(ENUMS), node=tup,
                   construct=f"DataType.{name} wrapper", msg=f"wrapper {wrapper} is not a subclass of {tp}")
        if len(tup.elts) >= 3:
            fmt = tup.elts[2]
            if isinstance(fmt, ast.Constant) and isinstance(fmt.value, str):
                ctx.ob(f"DataType.{name}: format {fmt.value!r} is one the bytes converter knows", fmt.value in ("base16", "base64"), at=ctx.repo.module(ENUMS), node=tup,
                       construct=f"DataType.{name} format", msg="unknown format")
    mod = ctx.repo.module(CONV)
    for table in ("__PYTHON_TYPES_SORTED__",):
        for k in _dict_keys(mod.globals.get(table)):
            ctx.ob(f"{table}[{k}] has a registered converter", k in regs, at=mod, construct=f"{table} {k}", msg="sorted type without converter")
    ex = mod.globals.get("__EXPLICIT_TYPES__")
    for e in (ex.elts if isinstance(ex, ast.Tuple) else []):
        ctx.ob(f"__EXPLICIT_TYPES__ member {unparse(e)} has a registered converter", unparse(e) in regs, at=mod, construct=f"explicit {unparse(e)}", msg="explicit type without converter")
    # object falls back to the str converter
    ctx.ob("object is registered with the str converter", "object" in regs and "str" in unparse(regs["object"]), at=mod, construct="object registration",
           msg="object fields would have no converter")
    # registered converters are instances of the class written for that type
    expected = {"str": "StringConverter", "int": "IntConverter", "bool": "BoolConverter", "float": "FloatConverter", "bytes": "BytesConverter",
                "time": "TimeConverter", "date": "DateConverter", "datetime": "DateTimeConverter", "QName": "QNameConverter", "Decimal": "DecimalConverter",
                "Enum": "EnumConverter", "XmlTime": "XmlTime.from_string", "XmlDate": "XmlDate.from_string", "XmlDateTime": "XmlDateTime.from_string",
                "XmlDuration": "XmlDuration", "XmlPeriod": "XmlPeriod"}
    for tp, want in expected.items():
        got = regs.get(tp)
        txt = unparse(got) if got is not None else None
        ok = txt is not None and (txt == f"{want}()" or txt == f"ProxyConverter({want})")
        ctx.ob(f"{tp} is converted by {want}", ok, at=mod, node=got, construct=f"registration {tp}", msg=f"{tp} registered with {txt}")


@rule("C05.R2")
def documented_priority(ctx: Ctx) -> None:
    """The numbered priority list in docs/models/types.md equals __PYTHON_TYPES_SORTED__ ordered by value."""
    mod = ctx.repo.module(CONV)
    table = mod.globals.get("__PYTHON_TYPES_SORTED__")
    if not isinstance(table, ast.Dict):
        raise AnalysisError("C05.R2: __PYTHON_TYPES_SORTED__ is not a dict literal")
    pairs = [(unparse(k), v.value) for k, v in zip(table.keys, table.values) if isinstance(v, ast.Constant)]
    ctx.ob("priority values are integer literals", len(pairs) == len(table.keys), at=mod, node=table, construct="priority literals", msg="non literal priority")
    vals = [v for _, v in pairs]
    ctx.ob("priority values are pairwise distinct", len(set(vals)) == len(vals), at=mod, node=table, construct="priority distinct", msg=f"tie in priorities {vals}: order would depend on input order")
    ctx.ob("priority values are positive (absent types sort first with key 0)", all(isinstance(v, int) and v > 0 for v in vals), at=mod, node=table, construct="priority positive",
           msg="a priority <= 0 ties with unknown types")
    code_order = [k for k, _ in sorted(pairs, key=lambda p: p[1])]
    doc = ctx.repo.read("docs/models/types.md")
    m = re.search(r"sorts the types by\s+priority:\s*\n((?:\s*\n|\s*\d+\.\s+`[^`]+`\s*\n)+)", doc)
    if not m:
        raise AnalysisError("C05.R2: priority list not found in docs/models/types.md")
    doc_order = re.findall(r"\d+\.\s+`([^`]+)`", m.group(1))
    ctx.ob("documented priority order = table order", doc_order == code_order, at=mod, node=table, construct="doc order",
           msg=f"docs say {doc_order}, table says {code_order}")
    st = ctx.repo.func(f"{CONV}:ConverterFactory.sort_types")
    ok = False
    for c, key, rev in sort_calls(st.node):
        kl = callable_leaves(ctx.repo, st, key)
        if kl is not None and (rev is None or (isinstance(rev, ast.Constant) and rev.value is False)):
            texts = {t for t, _ in kl}
            # table lookup with 0 for unknown types: T.get(x, 0), or T[x] under `x in T` else 0
            ok = texts in ({"__PYTHON_TYPES_SORTED__.get(_,0)"}, {"__PYTHON_TYPES_SORTED__.get(_,default=0)"}) or (
                texts == {"__PYTHON_TYPES_SORTED__[_]", "0"} and all(("_in__PYTHON_TYPES_SORTED__", True) in c for t, c in kl if t == "__PYTHON_TYPES_SORTED__[_]"))
            if not ok and texts == {"__PYTHON_TYPES_SORTED__[_]", "0"}:
                # EAFP form: try: return T[x] / except KeyError: return 0
                ci_ = callable_info(ctx.repo, st, key)
                if ci_ is not None:
                    for tr in [x for x in ast.walk(ci_[0].node) if isinstance(x, ast.Try)]:
                        in_body = any(isinstance(x, ast.Subscript) and unparse(x.value) == "__PYTHON_TYPES_SORTED__" for b in tr.body for x in ast.walk(b))
                        handled = any(h.type is not None and unparse(h.type) in ("KeyError", "LookupError") and any(isinstance(x, ast.Constant) and x.value == 0 for b in h.body for x in ast.walk(b)) for h in tr.handlers)
                        ok = ok or (in_body and handled)
    ctx.ob("sort_types sorts ascending by the table (unknown types first)", ok, at=st, construct="sort key", msg="sort key is not the priority table")
    # str is last: it accepts everything, so any type after it would be unreachable
    ctx.ob("str has the highest priority number (tried last)", bool(code_order) and code_order[-1] == "str", at=mod, node=table, construct="str last",
           msg="str is tried before another type and shadows it")
    # at most one non-object DataType python type is absent from the table (ties at key 0)
    dt = ctx.repo.cls(f"{ENUMS}:DataType")
    types = {unparse(st.value.elts[1]) for st in dt.node.body if isinstance(st, ast.Assign) and isinstance(st.value, ast.Tuple) and len(st.value.elts) >= 2}
    absent = sorted(t for t in types if t not in code_order and t != "object")
    ctx.ob("at most one DataType python type is absent from the priority table", len(absent) <= 1, at=mod, node=table, construct="absent types",
           msg=f"{absent} all get key 0: their relative order depends on set iteration")
    # sites that must sort before trying candidates
    users = []
    for fi in ctx.repo.functions.values():
        if fi.module.name.startswith("xsdata.formats.dataclass.models.builders"):
            for c in calls_in(fi.node):
                if unparse(c.func).endswith("sort_types"):
                    users.append(fi)
    ctx.ob("the binding metadata builder sorts field types with sort_types", bool(users), at=users[0] if users else st, construct="builder sorts types",
           msg="XmlVar.types would keep the declaration order")


@rule("C05.R3")
def strict_test_coverage(ctx: Ctx) -> None:
    """ConverterFactory.test re-serialises (strict) every explicit type whose lexical space has non-canonical spellings."""
    t = ctx.repo.func(f"{CONV}:ConverterFactory.test")
    covered: set[str] = set()
    g = build_cfg(t.node)
    decoded = names_from_calls(t.node, ("deserialize",))
    from ..q import family
    for f_ in family(ctx.repo, t):
        # in a helper the decoded value arrives as a parameter
        cand = decoded if f_ is t else {a.arg for a in f_.params if a.arg not in ("self", "cls")}
        for c_ in walk_no_nested(f_.node):
            if isinstance(c_, ast.Call) and unparse(c_.func) == "isinstance" and len(c_.args) == 2 and isinstance(c_.args[0], ast.Name) and c_.args[0].id in cand:
                tp = c_.args[1]
                if isinstance(tp, ast.Name) and isinstance(f_.module.globals.get(tp.id), ast.Tuple):
                    tp = f_.module.globals[tp.id]
                covered |= {unparse(e) for e in tp.elts} if isinstance(tp, ast.Tuple) else {unparse(tp)}
    need = {"int", "float", "Decimal", "XmlPeriod"}
    for tp in sorted(need):
        ctx.ob(f"strict test re-serialises {tp}", tp in covered, at=t, construct=f"strict {tp}", msg=f"'{tp}' values with non-canonical spelling (leading zeros, +, trailing zeros) would be inferred as {tp} and change on output")
    from ..q import flows
    rets = [(chain[-1] if chain else n, leaf) for n in g.returns() if n.ast.value is not None for leaf, chain in flows(t, n, n.ast.value)
            if isinstance(leaf, ast.Compare) and len(leaf.ops) == 1 and isinstance(leaf.ops[0], ast.Eq)]
    ok = False
    kw_ok = False
    for r, cmp_ in rets:
        sides = [cmp_.left, cmp_.comparators[0]]
        stripped = [x for x in sides if "value.strip()" in value_texts(t, r, x)]
        other = [x for x in sides if x not in stripped]
        if len(stripped) == 1 and len(other) == 1:
            leaves = leaves_at(t, r, other[0])
            if leaves and all(isinstance(x, ast.Call) and unparse(x.func) == "self.serialize" and x.args and isinstance(x.args[0], ast.Name) and x.args[0].id in decoded for x in leaves):
                ok = True
                kw_ok = all(any(k.arg is None for k in x.keywords) for x in leaves)
    ctx.ob("strict comparison is stripped input == re-serialised value", ok, at=t, construct="strict compare", msg="strict comparison changed")
    ctx.ob("strict re-serialisation passes the same kwargs as the deserialisation", kw_ok, at=t, construct="strict kwargs", msg="format/ns_map not forwarded to serialize")
    ctx.ob("non-str input is never valid", bool(tests_raw(t, "isinstance(value, str)")), at=t, construct="str only", msg="non-str accepted")


NARROWING = {
    # asserts in from_string after unpacking parse_date_args: the scanner yields an int for every non-%z directive
    "XmlDate.from_string", "XmlDateTime.from_string", "XmlTime.from_string",
}


def _not_none_assert_on_parsed(fi: FuncInfo, node: ast.Assert) -> bool:
    """`assert x is not None` / `assert all(v is not None for v in xs)` where x / xs hold components returned by parse_date_args
    (other than a name that is directly the last, i.e. the optional %z, unpack target)."""
    derived: set[str] = set()
    last: set[str] = set()
    whole: set[str] = set()
    for _ in range(8):
        for st in walk_no_nested(fi.node):
            if isinstance(st, (ast.Assign, ast.AnnAssign)) and st.value is not None:
                tgts = st.targets if isinstance(st, ast.Assign) else [st.target]
                src = {x.id for x in ast.walk(st.value) if isinstance(x, ast.Name)}
                if "parse_date_args" in unparse(st.value) or (src & derived):
                    for t in tgts:
                        names = [x for x in ast.walk(t) if isinstance(x, ast.Name)]
                        derived |= {x.id for x in names}
                        whole_result = "parse_date_args" in unparse(st.value) or (isinstance(st.value, ast.Name) and st.value.id in whole)
                        if "parse_date_args" in unparse(st.value) and isinstance(t, ast.Name):
                            whole.add(t.id)  # args = parse_date_args(...): the complete result, offset last
                        if whole_result and isinstance(t, (ast.Tuple, ast.List)) and t.elts and isinstance(t.elts[-1], ast.Name):
                            last.add(t.elts[-1].id)
            elif isinstance(st, ast.For) and {x.id for x in ast.walk(st.iter) if isinstance(x, ast.Name)} & derived:
                derived |= {x.id for x in ast.walk(st.target) if isinstance(x, ast.Name)}
    # the optional %z slot: also when it is taken off the end of a list of the parsed components
    for st in walk_no_nested(fi.node):
        if isinstance(st, ast.Assign) and isinstance(st.targets[0], ast.Name):
            v = st.value
            if isinstance(v, ast.Call) and isinstance(v.func, ast.Attribute) and v.func.attr == "pop" and not v.args and isinstance(v.func.value, ast.Name) and v.func.value.id in derived:
                last.add(st.targets[0].id)
            if isinstance(v, ast.Subscript) and isinstance(v.value, ast.Name) and v.value.id in derived and isinstance(v.slice, ast.UnaryOp):
                last.add(st.targets[0].id)

    def not_none(c: ast.expr, extra: set[str], want_is_none: bool = False) -> bool:
        op = ast.Is if want_is_none else ast.IsNot
        return (isinstance(c, ast.Compare) and len(c.ops) == 1 and isinstance(c.ops[0], op) and isinstance(c.comparators[0], ast.Constant) and c.comparators[0].value is None
                and isinstance(c.left, ast.Name) and c.left.id in (derived | extra) and c.left.id not in last)

    def ok(t: ast.expr) -> bool:
        if isinstance(t, ast.BoolOp) and isinstance(t.op, ast.And):
            return all(ok(v) for v in t.values)
        neg = False
        if isinstance(t, ast.UnaryOp) and isinstance(t.op, ast.Not):
            t, neg = t.operand, True
            if isinstance(t, ast.BoolOp) and isinstance(t.op, ast.Or):
                # not (a is None or b is None)  ==  a is not None and b is not None
                return all(not_none(v, set(), want_is_none=True) for v in t.values)
        if isinstance(t, ast.Call) and isinstance(t.func, ast.Name) and t.func.id == ("any" if neg else "all") and t.args and isinstance(t.args[0], (ast.GeneratorExp, ast.ListComp)):
            comp = t.args[0]
            if not ({x.id for x in ast.walk(comp.generators[0].iter) if isinstance(x, ast.Name)} & (derived - last)):
                return False
            return not_none(comp.elt, {x.id for x in ast.walk(comp.generators[0].target) if isinstance(x, ast.Name)}, want_is_none=neg)
        return not neg and not_none(t, set())

    return ok(node.test)


def _assert_ok(fi: FuncInfo, node: ast.Assert) -> bool:
    q = fi.qual.split(":")[1]
    if q in NARROWING and _not_none_assert_on_parsed(fi, node):
        return True
    if q in NARROWING and re.fullmatch(r"assert \w+ is not None", ast.unparse(node)):
        # only for names unpacked from parse_date_args in this function and not the offset (the %z slot may be None)
        name = node.test.left.id if isinstance(node.test, ast.Compare) and isinstance(node.test.left, ast.Name) else None
        for st in walk_no_nested(fi.node):
            if isinstance(st, ast.Assign) and isinstance(st.targets[0], ast.Tuple) and "parse_date_args" in unparse(st.value):
                names = [unparse(t) for t in st.targets[0].elts]
                return name in names[:-1]
    return False


def _infeasible(fi: FuncInfo, node: ast.AST, exc: str) -> bool:
    if fi.qual == "xsdata.utils.namespaces:build_qname" and exc == "ValueError":
        return True
    # int()/float() over regex digit groups in XmlDuration._parse_interval cannot raise TypeError
    if fi.qual == f"{DT}:XmlDuration._parse_interval" and exc == "TypeError" and isinstance(node, ast.Call):
        return True
    # DateTimeParser digit scanning: int(str slice) raises only ValueError; all of parse() is wrapped in except Exception
    if fi.qual.startswith("xsdata.utils.dates:DateTimeParser.") and exc == "TypeError" and isinstance(node, ast.Call):
        return True
    return False


def _str_input(fi: FuncInfo, call: ast.Call) -> bool:
    return (fi.name == "deserialize" and fi.cls is not None and fi.cls.is_subclass_of(f"{CONV}:Converter")
            and bool(call.args) and isinstance(call.args[0], ast.Name) and call.args[0].id in ("value", "val"))


@rule("C05.R4")
def converter_error_discipline(ctx: Ctx) -> None:
    """With str input, each registered converter's deserialize can only raise ConverterError (factories: only ValueError)."""
    regs = _registrations(ctx)
    mr = MayRaise(ctx, assert_ok=_assert_ok, infeasible=_infeasible, str_input=_str_input)
    roots: list[tuple[str, FuncInfo, str]] = []
    for tp, node in regs.items():
        txt = unparse(node)
        if txt.startswith("ProxyConverter("):
            target = unparse(node.args[0])
            r = ctx.repo.resolve_name(ctx.repo.module(CONV), target)
            if r in ctx.repo.functions:
                roots.append((tp, ctx.repo.functions[r], "ValueError"))
            elif r in ctx.repo.classes:
                init = ctx.repo.classes[r].find_method("__init__")
                if init is None:
                    raise AnalysisError(f"C05.R4: no __init__ for factory {target}")
                roots.append((tp, init, "ValueError"))
            else:
                raise AnalysisError(f"C05.R4: factory {target} not resolved")
        elif txt.endswith("()"):
            r = ctx.repo.resolve_name(ctx.repo.module(CONV), txt[:-2])
            if r not in ctx.repo.classes:
                raise AnalysisError(f"C05.R4: converter class {txt} not resolved")
            m = ctx.repo.classes[r].find_method("deserialize")
            roots.append((tp, m, "ConverterError"))
    proxy = ctx.repo.func(f"{CONV}:ProxyConverter.deserialize")
    roots.append(("ProxyConverter", proxy, "ConverterError"))
    mr.solve([r for _, r, _ in roots])
    ctx.floor("registered converters analysed", len(roots), 16)
    for tp, fi, allowed in roots:
        esc = mr.escaping(fi)
        bad = {e: orgs[0] for e, orgs in esc.items() if not mr.hier.catches(allowed, e)}
        ctx.ob(f"{tp}: {fi.qual.split(':')[1]} raises only {allowed}", not bad, at=fi, construct=f"may-raise {tp}",
               msg=f"may also raise {sorted(bad)}: ConverterFactory.deserialize suppresses only ConverterError, so this aborts the fall-through to the next candidate type; "
                   + "; ".join(" <- ".join(o.chain()[:3]) for o in bad.values()), witness={e: o.chain() for e, o in bad.items()})
    # the proxy converts exactly the factory's error family
    fx = [h for t in walk_no_nested(proxy.node) if isinstance(t, ast.Try) for h in t.handlers]
    ok = bool(fx) and all(unparse(h.type) == "ValueError" and any(isinstance(s, ast.Raise) and "ConverterError" in unparse(s.exc) for s in h.body) for h in fx)
    ctx.ob("ProxyConverter converts the factory's ValueError to ConverterError", ok, at=proxy, construct="proxy handler", msg="factory errors leak")
    # the factory loop suppresses ConverterError only and raises ConverterError when no candidate matched
    de = ctx.repo.func(f"{CONV}:ConverterFactory.deserialize")
    sup = [w for w in walk_no_nested(de.node) if isinstance(w, ast.With) and "suppress(ConverterError)" in unparse(w.items[0].context_expr)]
    guarded = [w.body for w in sup] + [t.body for t in walk_no_nested(de.node) if isinstance(t, ast.Try) and t.handlers and all(h.type is not None and unparse(h.type) == "ConverterError" for h in t.handlers)
                                       and not any(isinstance(x, ast.Raise) for h in t.handlers for s_ in h.body for x in [s_, *walk_no_nested(s_)])]
    gde = build_cfg(de.node)
    # the candidate's result is returned: a return whose value comes from a deserialize call made inside the guarded block
    guarded_calls = {id(c) for body in guarded for s in body for c in calls_in(s) if call_name_of(c) == "deserialize"}
    ok = bool(guarded) and any(any(id(leaf) in guarded_calls for leaf in leaves_at(de, r, r.ast.value)) for r in gde.returns() if r.ast.value is not None)
    # when the candidates are exhausted (the loop's normal exit, a for/else included) ConverterError is raised
    done = [m for f in gde.nodes if f.kind == "for" for m, lab in gde.succ[f.id] if lab == "done"]
    after = gde.reachable(done, blocked=[f.id for f in gde.nodes if f.kind == "for"]) if done else set()
    final = [n for n in gde.stmts() if n.id in after and isinstance(n.ast, ast.Raise) and n.ast.exc is not None and "ConverterError" in unparse(n.ast.exc)]
    ctx.ob("ConverterFactory.deserialize tries each candidate with ConverterError (only) suppressed and raises ConverterError when none matched",
           ok and bool(final), at=de, construct="factory loop", msg="candidate loop changed")
    loop = [f for f in walk_no_nested(de.node) if isinstance(f, ast.For)]
    ctx.ob("candidates are tried in the given (sorted) order", bool(loop) and "types" in value_texts(de, loop[0], loop[0].iter), at=de, construct="loop order", msg="iteration order over candidate types changed")


# ---------------------------------------------------------------------------- whitespace taint

SINK_METHODS = {"match", "fullmatch", "search", "startswith", "endswith", "find", "rfind", "index", "partition", "rpartition", "isdigit"}
CLEANERS = {"strip"}


class WsTaint:
    """Does the raw (unstripped) text of a parameter reach a lexical sink?"""

    def __init__(self, ctx: Ctx):
        self.ctx = ctx
        self.findings: list[tuple[FuncInfo, ast.AST, str]] = []
        self.visited: set[tuple[str, str]] = set()
        self.sinks_seen = 0

    def run(self, fi: FuncInfo, param: str, depth: int = 0) -> None:
        key = (fi.qual, param)
        if key in self.visited or depth > 6:
            return
        self.visited.add(key)
        raw = {param}
        # flow-insensitive but order-aware: walk statements in source order
        from ..model import ordered_stmts

        for st in ordered_stmts(fi.node):
            self._scan_exprs(fi, st, raw, depth)
            orig = st
            if isinstance(st, ast.AnnAssign) and st.value is not None:
                st = ast.copy_location(ast.Assign(targets=[st.target], value=st.value), st)
            if isinstance(st, ast.Assign) and len(st.targets) == 1 and isinstance(st.targets[0], ast.Name):
                name = st.targets[0].id
                if self._is_raw(st.value, raw):
                    if not _under_array_test(fi.node, orig, raw):
                        raw.add(name)
                elif name in raw and not _in_branch(fi.node, orig):
                    raw.discard(name)
                elif name in raw and self._is_clean_of(st.value, raw):
                    # conditional cleaning (if isinstance(value, str): value = value.strip()): the str paths are clean
                    raw.discard(name)

    def _is_raw(self, e: ast.expr, raw: set[str]) -> bool:
        if isinstance(e, ast.Name):
            return e.id in raw
        if isinstance(e, ast.IfExp):
            return self._is_raw(e.body, raw) or self._is_raw(e.orelse, raw)
        if isinstance(e, ast.Subscript):
            return self._is_raw(e.value, raw)  # a slice of raw text is raw
        return False

    def _is_clean_of(self, e: ast.expr, raw: set[str]) -> bool:
        return isinstance(e, ast.Call) and isinstance(e.func, ast.Attribute) and e.func.attr in CLEANERS and self._is_raw(e.func.value, raw) or (
            isinstance(e, ast.Call) and unparse(e.func) == "re.sub" and len(e.args) == 3 and self._is_raw(e.args[2], raw))

    def _scan_exprs(self, fi: FuncInfo, st: ast.stmt, raw: set[str], depth: int) -> None:
        from ..cfg import header_exprs

        for root in header_exprs(st):
            for n in [root, *walk_no_nested(root)]:
                if isinstance(n, ast.Call):
                    f = n.func
                    if isinstance(f, ast.Attribute):
                        # raw.method(...)
                        if self._is_raw(f.value, raw):
                            if f.attr in SINK_METHODS or (f.attr in ("split", "rsplit") and n.args):
                                self._sink(fi, n, f"{unparse(f.value)}.{f.attr}()")
                        # pattern.match(raw) / strptime(raw, fmt)
                        if f.attr in ("match", "fullmatch", "search", "strptime") and n.args and self._is_raw(n.args[0], raw) or (
                                f.attr in ("split", "sub", "findall") and not self._is_raw(f.value, raw) and n.args and self._is_raw(n.args[-1 if f.attr == "sub" else 0], raw)
                                and not _is_ws_collapse(n)):
                            self._sink(fi, n, f"{unparse(f)}({unparse(n.args[0])})")
                    if isinstance(f, ast.Name) and f.id == "len" and n.args and self._is_raw(n.args[0], raw):
                        self._sink(fi, n, f"len({unparse(n.args[0])})")
                    # interprocedural: raw passed to a repo function
                    r = self.ctx.res.resolve_call(fi, n)
                    if r.by_name:
                        continue
                    targets = list(r.funcs)
                    for c in r.ctors:
                        init = c.find_method("__init__")
                        if init:
                            targets.append(init)
                    for callee in targets:
                        if not callee.module.name.startswith(("xsdata.formats.converter", "xsdata.models.datatype", "xsdata.utils")):
                            continue
                        names = [a.arg for a in callee.pos_params]
                        if callee.cls is not None and not callee.is_staticmethod and names and names[0] in ("self", "cls"):
                            names = names[1:]
                        for i, a in enumerate(n.args):
                            if self._is_raw(a, raw) and i < len(names):
                                self.run(callee, names[i], depth + 1)
                        for k in n.keywords:
                            if k.arg and self._is_raw(k.value, raw) and k.arg in names:
                                self.run(callee, k.arg, depth + 1)
                elif isinstance(n, ast.Compare):
                    sides = [n.left, *n.comparators]
                    if any(self._is_raw(s, raw) for s in sides) and any(isinstance(op, (ast.In, ast.NotIn, ast.Eq, ast.NotEq)) for op in n.ops):
                        others = [s for s in sides if not self._is_raw(s, raw)]
                        if any(isinstance(o, (ast.Tuple, ast.List, ast.Set)) or (isinstance(o, ast.Constant) and isinstance(o.value, str)) for o in others):
                            self._sink(fi, n, unparse(n))
                elif isinstance(n, ast.Subscript) and isinstance(n.ctx, ast.Load) and self._is_raw(n.value, raw) and not isinstance(n.slice, ast.Slice):
                    self._sink(fi, n, unparse(n))

    def _sink(self, fi: FuncInfo, node: ast.AST, what: str) -> None:
        self.findings.append((fi, node, what))


def _is_ws_collapse(call: ast.Call) -> bool:
    """re.sub(r"\\s+", "", x) / pattern.sub over whitespace is itself a normaliser, not a sink."""
    return isinstance(call.func, ast.Attribute) and call.func.attr == "sub" and any(isinstance(a, ast.Constant) and isinstance(a.value, str) and "\\s" in a.value for a in call.args)


def _under_array_test(fn: ast.AST, st: ast.stmt, raw: set[str]) -> bool:
    """The statement runs only when the raw name is an array (list of tokens), i.e. not lexical text."""
    for n in walk_no_nested(fn):
        if isinstance(n, ast.If) and any(sub is st for b in n.body for sub in ast.walk(b)):
            t = ast.unparse(n.test)
            if any(f"is_array({r})" in t for r in raw) or any(f"isinstance({r}, (list" in t or f"isinstance({r}, list" in t for r in raw):
                return True
    return False


def _in_branch(fn: ast.AST, st: ast.stmt) -> bool:
    for n in walk_no_nested(fn):
        if isinstance(n, (ast.If, ast.For, ast.While, ast.Try, ast.With)) and not hasattr(n, "_xsa_inline"):
            for sub in ast.walk(n):
                if sub is st and sub is not n:
                    return True
    return False


@rule("C05.R5")
def whitespace_before_lexical_sinks(ctx: Ctx) -> None:
    """For every registered non-str converter, the value reaches regex / scanner / literal comparisons only after whitespace normalisation."""
    regs = _registrations(ctx)
    n = 0
    for tp, node in sorted(regs.items()):
        if tp in ("str", "object"):
            continue
        txt = unparse(node)
        roots: list[tuple[FuncInfo, str]] = []
        if txt.startswith("ProxyConverter("):
            target = unparse(node.args[0])
            r = ctx.repo.resolve_name(ctx.repo.module(CONV), target)
            fi = ctx.repo.functions.get(r) or (ctx.repo.classes[r].find_method("__init__") if r in ctx.repo.classes else None)
            if fi is None:
                raise AnalysisError(f"C05.R5: factory {target} not resolved")
            names = [a.arg for a in fi.pos_params if a.arg not in ("self", "cls")]
            roots.append((fi, names[0]))
        else:
            r = ctx.repo.resolve_name(ctx.repo.module(CONV), txt[:-2])
            m = ctx.repo.classes[r].find_method("deserialize")
            roots.append((m, "value"))
        for fi, param in roots:
            n += 1
            wt = WsTaint(ctx)
            wt.run(fi, param)
            seen = set()
            if not wt.findings:
                ctx.ob(f"{tp}: no lexical sink sees the raw value ({len(wt.visited)} functions followed)", True, at=fi, construct=f"ws {tp}")
            for f2, node2, what in wt.findings:
                k = (f2.qual, what)
                if k in seen:
                    continue
                seen.add(k)
                ctx.ob(f"{tp}: {f2.qual.split(':')[1]} applies {what} to whitespace-normalised text", False, at=f2, node=node2,
                       msg="the value reaches this lexical sink without strip()/re.sub: a valid lexical form with surrounding whitespace is rejected "
                           "(XSD whiteSpace=collapse applies to every non-string datatype)")
    ctx.floor("registered non-str converters", n, 14)
    # token lists: the text of a list-valued field is split into tokens before conversion
    pv = ctx.repo.func("xsdata.formats.dataclass.parsers.utils:ParserUtils.parse_value")
    wt = WsTaint(ctx)
    wt.run(pv, "value")
    splits = [c for c in calls_in(pv.node) if isinstance(c.func, ast.Attribute) and c.func.attr == "split" and unparse(c.func.value) == "value"]
    ok = not wt.findings and bool(splits) and all(not c.args and not c.keywords for c in splits)
    ctx.ob("parse_value: a token list is split with str.split() (any whitespace run, no empty tokens)", ok, at=pv, node=(wt.findings[0][1] if wt.findings else (splits[0] if splits else None)),
           construct="token split", msg="leading / trailing or repeated whitespace in a list value yields empty tokens: ' 2 3 ' no longer converts to [2, 3]"
           + ("; " + "; ".join(w for _, _, w in wt.findings) if wt.findings else ""))


share("C09", "C09.R1", whitespace_before_lexical_sinks)


@rule("C05.R6")
def converters_keep_no_context_free_memo(ctx: Ctx) -> None:
    """Converter instances live in the process-wide registry: any memo they keep must be keyed by everything the result depends on (type, format, ns_map)."""
    from .c14 import DESIGNATED, _classify, _control_sources, _flow_sources, _sites

    conv = ctx.repo.cls(f"{CONV}:Converter")
    family = {conv.qual, *[c.qual for c in conv.all_subclasses()], f"{CONV}:ConverterFactory"}
    sites = [s for s in _sites(ctx) if s.cls.qual in family]
    n = 0
    for s in sites:
        n += 1
        ok, why = _classify(ctx, s)
        ctx.ob(f"{s.cls.name}.{s.fi.name}: {s.kind} of self.{s.attr} is an admissible write", ok, at=s.fi, node=s.node, construct=f"{s.kind}:{s.attr}:{s.detail}", msg=why)
        if s.kind == "setitem" and (s.cls.name, s.fi.name, s.attr) not in DESIGNATED:
            params = [a.arg for a in s.fi.params if a.arg != "self"]
            missing = sorted((_flow_sources(s.fi, s.value, params) | _control_sources(s.fi, s.node, params)) - _flow_sources(s.fi, s.key, params))
            ctx.ob(f"{s.cls.name}.{s.fi.name}: memo self.{s.attr} is keyed by every input of the conversion", not missing, at=s.fi, node=s.node, construct=f"converter memo {s.attr}",
                   msg=f"the cached result depends on {missing} (e.g. the prefix map or format passed as keyword arguments) which is not part of the key: the same literal converted in another context returns the first context's value")
    ctx.ob(f"converter state write sites are registry (un)registrations only ({n} sites)", n >= 1, at=ctx.repo.func(f"{CONV}:ConverterFactory.register_converter"), construct="converter write sites", msg="registry writers vanished")


from .c08 import prefixes_resolved_never_matched  # noqa: E402

share("C05", "C05.R7", prefixes_resolved_never_matched)

from .c03 import no_prefix_rebinding  # noqa: E402

share("C05", "C05.R8", no_prefix_rebinding)  # a QName serialised with a prefix map must parse back with the same map: generated prefixes never rebind


@rule("C05.R9")
def token_lists_convert_item_by_item(ctx: Ctx) -> None:
    """ConverterFactory.serialize renders a list of tokens by dispatching every item through the factory again (each item by its own type):
    no converter chosen for one item is applied to the others."""
    fi = ctx.repo.func(f"{CONV}:ConverterFactory.serialize")
    g = build_cfg(fi.node)
    lst = tests_raw(fi, "isinstance(value, list)", "isinstance(value, (list, tuple))", "isinstance(value, (tuple, list))", "collections.is_array(value)")
    if not lst:
        ctx.abstain("list branch of ConverterFactory.serialize", at=fi)
        return
    n = 0
    for node in g.stmts():
        if not any(g.only_if(node.id, t.id, True) for t in lst):
            continue
        for c in node_calls(node):
            if isinstance(c.func, ast.Attribute) and c.func.attr == "serialize":
                n += 1
                ctx.ob("tokens are serialized through self.serialize(item) (the factory dispatches on each item's own type)", func_text(fi, c) in ("self.serialize", "cls.serialize"), at=fi, node=c,
                       construct="token item dispatch", msg="a converter resolved from the first token is applied to all: [1, True] renders as '1 True', [2, Occurs.UNBOUNDED] as '2 Occurs.UNBOUNDED'")
    if not n:
        ctx.abstain("item conversion calls in the list branch of serialize", at=fi)


@rule("C05.R10")
def period_kind_is_decided_by_presence_of_the_year(ctx: Ctx) -> None:
    """period_datatype (the xsi:type written for an XmlPeriod in an untyped field): a period that HAS a year - year 0 included, a legal
    XSD 1.1 year - is a gYear / gYearMonth; the month / day kinds are for periods without a year.  The decision is `year is not None`,
    never the truthiness of the year."""
    from ..q import reach_table as _rt

    fi = ctx.repo.func("xsdata.models.enums:period_datatype")
    ps = [a.arg for a in fi.params]
    if len(ps) != 1:
        ctx.abstain("parameter of period_datatype", at=fi)
        return
    p = ps[0]
    g = build_cfg(fi.node)
    done = 0
    for r in g.returns():
        if r.ast is None or r.ast.value is None:
            continue
        t = ast.unparse(r.ast.value)
        if not t.startswith("DataType.G_"):
            continue
        tab = _rt(fi, r, [{f"{p}.year is not None": True, f"{p}.year is None": False}, {f"{p}.year": True}], raw=True)
        if tab is None:
            ctx.abstain(f"year test guarding `return {t}`", at=fi)
            continue
        done += 1
        yearly = "YEAR" in t
        # a year kind is reachable for a present-but-zero year; a year-less kind is not
        ok = tab[(True, False)] if yearly else (not tab[(True, False)] and not tab[(True, True)])
        ctx.ob(f"period_datatype: `{t}` is chosen by `year is not None` (a period with year 0 is a year kind)", ok, at=fi, node=r.ast, construct=f"period kind {t.split('.')[-1]}",
               msg=f"(year is not None, year is truthy) -> reachable: {sorted(tab.items())}: XmlPeriod('0000') / ('0000-05') are written with xsi:type gDay / gMonth, for which '0000' / '0000-05' are not valid lexical forms")
    if not done:
        ctx.abstain("return kinds of period_datatype", at=fi, why="no `return DataType.G_*` with a readable year test")
