"""E5 - shared-state write discipline (used by C14 history independence and C19 concurrency).

Persistent objects (kept across calls and shared between threads by the documented usage): the
binding context, its metadata graph, the converter registry, parser / serializer / decoder instances.
Every site in their methods that may mutate ``self`` state (outside construction) is collected and
classified structurally.
"""

from __future__ import annotations

import ast
from dataclasses import dataclass, field

from .cfg import build_cfg, calls_in
from .core import Ctx
from .model import AnalysisError, ClassInfo, FuncInfo, walk_no_nested
from .q import MUTATORS, is_self_attr, names_in, root_name, stores, unparse

PERSISTENT_ROOTS = {
    "xsdata.formats.dataclass.context:XmlContext": "the shared binding context",
    "xsdata.formats.dataclass.models.elements:XmlMeta": "cached class metadata (shared through XmlContext.cache)",
    "xsdata.formats.dataclass.models.elements:XmlVar": "cached field metadata (shared through XmlMeta)",
    "xsdata.formats.converter:ConverterFactory": "module singleton `converter`",
    "xsdata.formats.converter:Converter": "converter instances held by the process-wide registry",
    "xsdata.formats.dataclass.compat:ClassTypes": "module singleton `class_types`",
    "xsdata.formats.dataclass.parsers.mixins:PushParser": "parser instances (XmlParser, TreeParser, UserXmlParser, RecordParser)",
    "xsdata.formats.dataclass.parsers.dict:DictDecoder": "decoder instances (DictDecoder, JsonParser)",
    "xsdata.formats.dataclass.serializers.mixins:EventGenerator": "serializer instances (XmlSerializer, TreeSerializer)",
    "xsdata.formats.dataclass.serializers.dict:DictEncoder": "encoder instances (DictEncoder, JsonSerializer)",
    "xsdata.formats.dataclass.serializers.code:PycodeSerializer": "code serializer instances",
}
CONSTRUCTION = {"__init__", "__post_init__", "__new__"}


@dataclass
class Site:
    cls: ClassInfo
    fi: FuncInfo
    node: ast.AST
    kind: str  # rebind | setitem | delitem | mutator | alias-mutator | defaultdict-load | augassign
    attr: str
    detail: str = ""
    value: ast.expr | None = None
    key: ast.expr | None = None


def persistent_classes(ctx: Ctx) -> dict[str, ClassInfo]:
    out: dict[str, ClassInfo] = {}
    for q in PERSISTENT_ROOTS:
        ci = ctx.repo.cls(q)
        out[ci.qual] = ci
        for sub in ci.all_subclasses():
            out[sub.qual] = sub
    return out


def _shared_returning_methods(ci: ClassInfo) -> dict[str, str]:
    """Methods of the class that return (a part of) a persistent container: name -> attribute."""
    out: dict[str, str] = {}
    for c in ci.mro:
        for m in c.methods.values():
            if m.name in out:
                continue
            for r in walk_no_nested(m.node):
                if isinstance(r, ast.Return) and r.value is not None:
                    a = _shared_root(r.value, {}, {})
                    if a:
                        out[m.name] = a
                    elif isinstance(r.value, ast.Name):
                        # returns a local that aliases shared state
                        al = _aliases(m, {})
                        if r.value.id in al:
                            out[m.name] = al[r.value.id]
    return out


def _shared_root(e: ast.expr, aliases: dict[str, str], shared_methods: dict[str, str]) -> str | None:
    """Attribute of self that expression e is (a part of), if any: self.A, self.A[k], self.A.get(k), alias[...]"""
    while True:
        if isinstance(e, ast.Subscript):
            e = e.value
            continue
        if isinstance(e, ast.Call) and isinstance(e.func, ast.Attribute) and e.func.attr in ("get", "setdefault", "values", "items", "keys", "pop"):
            e = e.func.value
            continue
        break
    if is_self_attr(e):
        return e.attr
    if isinstance(e, ast.Name) and e.id in aliases:
        return aliases[e.id]
    if isinstance(e, ast.Call) and isinstance(e.func, ast.Attribute) and is_self_attr(e.func, None, ("self",)) and e.func.attr in shared_methods:
        return shared_methods[e.func.attr]
    return None


def _aliases(fi: FuncInfo, shared_methods: dict[str, str]) -> dict[str, str]:
    al: dict[str, str] = {}
    for _ in range(2):
        for st, tgt, val in stores(fi.node):
            if isinstance(tgt, ast.Name) and val is not None and not isinstance(st, ast.AugAssign):
                if isinstance(st, (ast.For, ast.AsyncFor)):
                    continue
                a = _shared_root(val, al, shared_methods)
                # fresh copies are not aliases
                if a and not _is_copy(val):
                    al[tgt.id] = a
        for n in walk_no_nested(fi.node):
            if isinstance(n, (ast.For, ast.AsyncFor)) and isinstance(n.target, ast.Name):
                a = _shared_root(n.iter, al, shared_methods)
                if a:
                    al[n.target.id] = a
    return al


def _is_copy(e: ast.expr) -> bool:
    if isinstance(e, ast.Call):
        f = unparse(e.func)
        if f in ("list", "dict", "set", "tuple", "sorted", "copy.copy", "copy.deepcopy", "frozenset") or f.endswith(".copy"):
            return True
    return isinstance(e, (ast.ListComp, ast.DictComp, ast.SetComp, ast.List, ast.Dict, ast.Set, ast.Tuple))


def _immutable_attr(ci: ClassInfo, attr: str) -> bool:
    """Attributes holding immutable values (str/int/bool/None/tuple/callables) - stores only rebind."""
    return False


def defaultdict_attrs(ci: ClassInfo) -> set[str]:
    out: set[str] = set()
    for c in ci.mro:
        for m in c.methods.values():
            for st, tgt, val in stores(m.node):
                if is_self_attr(tgt) and isinstance(val, ast.Call) and unparse(val.func).endswith("defaultdict"):
                    out.add(tgt.attr)
            # a local defaultdict published into the attribute
            local_dd = {t.id for st, t, v in stores(m.node) if isinstance(t, ast.Name) and isinstance(v, ast.Call) and unparse(v.func).endswith("defaultdict")}
            for st, tgt, val in stores(m.node):
                if is_self_attr(tgt) and isinstance(val, ast.Name) and val.id in local_dd:
                    out.add(tgt.attr)
    return out


def collect_sites(ctx: Ctx) -> list[Site]:
    sites: list[Site] = []
    for ci in persistent_classes(ctx).values():
        shared_methods = _shared_returning_methods(ci)
        dd = defaultdict_attrs(ci)
        for m in ci.methods.values():
            if m.name in CONSTRUCTION or m.is_staticmethod or m.is_classmethod:
                continue
            al = _aliases(m, shared_methods)
            for st, tgt, val in stores(m.node):
                if is_self_attr(tgt):
                    kind = "augassign" if isinstance(st, ast.AugAssign) else "rebind"
                    sites.append(Site(ci, m, st, kind, tgt.attr, unparse(st)[:80], val))
                elif isinstance(tgt, ast.Subscript):
                    a = _shared_root(tgt.value, al, shared_methods)
                    if a:
                        sites.append(Site(ci, m, st, "delitem" if isinstance(st, ast.Delete) else "setitem", a, unparse(st)[:80], val, tgt.slice))
                elif isinstance(tgt, ast.Attribute) and not is_self_attr(tgt):
                    a = _shared_root(tgt.value, al, shared_methods)
                    if a:
                        sites.append(Site(ci, m, st, "alias-attr-store", a, unparse(st)[:80], val))
            for c in calls_in(m.node):
                f = c.func
                if isinstance(f, ast.Attribute) and f.attr in MUTATORS:
                    if is_self_attr(f.value):
                        sites.append(Site(ci, m, c, "mutator", f.value.attr, unparse(c)[:80]))
                    else:
                        a = _shared_root(f.value, al, shared_methods)
                        if a and not (f.attr in ("pop", "setdefault") and False):
                            sites.append(Site(ci, m, c, "alias-mutator", a, unparse(c)[:80]))
            # defaultdict subscript loads insert
            for n in walk_no_nested(m.node):
                if isinstance(n, ast.Subscript) and isinstance(n.ctx, ast.Load) and is_self_attr(n.value) and n.value.attr in dd:
                    sites.append(Site(ci, m, n, "defaultdict-load", n.value.attr, unparse(n)[:80], None, n.slice))
    return sites


def value_mutated_after(fi: FuncInfo, store: ast.stmt, value: ast.expr | None) -> list[ast.AST]:
    """Mutations of the stored value (through its local names) that are reachable after the store."""
    if value is None:
        return []
    names: set[str] = set()
    if isinstance(value, ast.Name):
        names.add(value.id)
    # chained assignment  a = self.X[k] = []  makes `a` an alias of the stored value
    if isinstance(store, ast.Assign):
        for t in store.targets:
            if isinstance(t, ast.Name):
                names.add(t.id)
    if not names:
        return []
    g = build_cfg(fi.node)
    sn = g.node_of(store)
    if sn is None:
        return []
    after = g.reachable([m for m, _ in g.succ[sn.id]])
    out: list[ast.AST] = []
    for c in calls_in(fi.node):
        f = c.func
        if isinstance(f, ast.Attribute) and f.attr in MUTATORS and root_name(f.value) in names:
            n = g.node_of(c)
            if n is not None and n.id in after:
                out.append(c)
    # lazy initialisation of a memo table (`self.memo = table = {}` ... `table[key] = value`): a single-key store through the alias is the same
    # atomic entry publish as `self.memo[key] = value` and is classified as a setitem site of its own
    empty_table = _is_empty_container(_alias_value(fi, value))
    for st, tgt, _ in stores(fi.node):
        if isinstance(tgt, (ast.Subscript, ast.Attribute)) and root_name(tgt) in names and not is_self_attr(tgt):
            if empty_table and isinstance(tgt, ast.Subscript) and isinstance(tgt.value, ast.Name) and isinstance(st, ast.Assign):
                continue
            n = g.node_of(st)
            if n is not None and n.id in after and st is not store:
                out.append(st)
    return out


def _is_empty_container(v: ast.expr | None) -> bool:
    if isinstance(v, ast.Dict):
        return not v.keys
    if isinstance(v, (ast.List, ast.Set)):
        return not v.elts
    return isinstance(v, ast.Call) and unparse(v.func) in ("dict", "list", "set") and not v.args and not v.keywords


def _alias_value(fi: FuncInfo, value: ast.expr | None) -> ast.expr | None:
    """The fresh container a stored local was created as (``table = {}`` ... ``self.memo = table``)."""
    if isinstance(value, ast.Name):
        defs = [v for st, tgt, v in stores(fi.node) if isinstance(tgt, ast.Name) and tgt.id == value.id and v is not None and isinstance(st, (ast.Assign, ast.AnnAssign))]
        fresh = [v for v in defs if _is_empty_container(v)]
        others = [v for v in defs if not _is_empty_container(v) and not _shared_root(v, {}, {})]
        if fresh and not others:
            return fresh[0]
    return value


def self_reads(fi: FuncInfo, seen: set[str] | None = None) -> set[str]:
    """Attributes of self read by the function, through self-method calls."""
    seen = seen if seen is not None else set()
    if fi.qual in seen:
        return set()
    seen.add(fi.qual)
    out: set[str] = set()
    for n in walk_no_nested(fi.node):
        if is_self_attr(n) and isinstance(n.ctx, ast.Load):
            if fi.cls is not None:
                m = fi.cls.find_method(n.attr)
                if m is not None:
                    out |= self_reads(m, seen)
                    continue
            out.add(n.attr)
    return out
