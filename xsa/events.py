"""Event-grammar analysis of the serializer's generator methods (C03.R1, C01.R3, C11.R2).

Each ``yield`` in a generator method of ``EventGenerator`` is abstracted to one of
S(e) START, E(e) END, A ATTR, D DATA, N(f) ``yield from`` of another generator method.
Every CFG path must spell a balanced word.  Paths are enumerated with syntactically equal
guard expressions given one consistent truth value until a name they mention is reassigned.
"""

from __future__ import annotations

import ast
from dataclasses import dataclass

from .cfg import CFG, Node, build_cfg, header_exprs
from .model import AnalysisError, ClassInfo, FuncInfo, walk_no_nested
from .q import assigned_names, names_in

MAX_PATHS = 4096


@dataclass
class Ev:
    kind: str  # S E A D N
    expr: str  # element expression text (S/E) or callee description (N)
    node: ast.AST


def event_of_yield(y: ast.AST, event_cls: str = "XmlWriterEvent") -> Ev | None:
    if isinstance(y, ast.Yield) and isinstance(y.value, ast.Tuple) and y.value.elts:
        head = y.value.elts[0]
        if isinstance(head, ast.Attribute) and isinstance(head.value, ast.Name) and head.value.id == event_cls:
            kind = {"START": "S", "END": "E", "ATTR": "A", "DATA": "D"}.get(head.attr)
            if kind is None:
                return Ev("?", ast.unparse(head), y)
            expr = ast.unparse(y.value.elts[1]) if len(y.value.elts) > 1 else ""
            return Ev(kind, expr, y)
    return None


def node_events(n: Node) -> list[Ev]:
    """Abstract events emitted by one CFG node, in evaluation order."""
    if n.ast is None or n.kind in ("except", "case", "assert_fail"):
        return []
    roots = [n.ast] if n.kind == "test" else header_exprs(n.ast)
    found: list[tuple[int, int, Ev]] = []
    for r in roots:
        for sub in [r, *walk_no_nested(r)]:
            if isinstance(sub, ast.Yield):
                ev = event_of_yield(sub)
                if ev is not None:
                    found.append((sub.lineno, sub.col_offset, ev))
                else:
                    found.append((sub.lineno, sub.col_offset, Ev("?", ast.unparse(sub), sub)))
            elif isinstance(sub, ast.YieldFrom):
                found.append((sub.lineno, sub.col_offset, Ev("N", ast.unparse(sub.value), sub)))
    found.sort(key=lambda t: (t[0], t[1]))
    return [e for _, _, e in found]


def canonical_events(fi: FuncInfo, n: Node) -> list[Ev]:
    """``node_events`` with the element expression of START / END / DATA events written with alias temporaries looked through
    (``qname = value.qname; yield START, qname`` names the same element as ``yield END, value.qname``)."""
    from .q import expand

    out = []
    for ev in node_events(n):
        y = ev.node
        if ev.kind in ("S", "E", "D") and isinstance(y, ast.Yield) and isinstance(y.value, ast.Tuple) and len(y.value.elts) > 1:
            ev = Ev(ev.kind, ast.unparse(expand(fi.node, y.value.elts[1])), y)
        out.append(ev)
    return out


def is_event_generator(fi: FuncInfo) -> bool:
    for n in walk_no_nested(fi.node):
        if isinstance(n, ast.Yield) and event_of_yield(n) is not None:
            return True
    return False


@dataclass
class PathProblem:
    what: str
    node: ast.AST | None
    path: list[str]


def check_function(fi: FuncInfo, allow_unopened_attr: bool = False, tail_after_end: bool = False) -> tuple[list[PathProblem], dict]:
    """Enumerate CFG paths and check the Dyck property.  Returns (problems, stats)."""
    g = build_cfg(fi.node)
    problems: list[PathProblem] = []
    seen_problem_keys: set[str] = set()
    stats = {"paths": 0, "events": 0, "pairs": 0}
    evs = {n.id: canonical_events(fi, n) for n in g.nodes}
    stats["events"] = sum(len(v) for v in evs.values())
    assigns = {}
    for n in g.nodes:
        names: set[str] = set()
        if n.ast is not None and n.kind in ("stmt", "for", "with"):
            for e in header_exprs(n.ast):
                names |= assigned_names(e)
        assigns[n.id] = names

    def report(what: str, node: ast.AST | None, path: list[str]) -> None:
        key = f"{what}@{getattr(node, 'lineno', 0)}"
        if key not in seen_problem_keys:
            seen_problem_keys.add(key)
            problems.append(PathProblem(what, node, list(path)))

    # state: node id, stack (tuple of (expr, content_started)), valuations (dict text->bool), visited loop heads
    def walk(nid: int, stack: tuple, vals: dict, loop_seen: dict, trace: list[str], depth: int) -> None:
        if stats["paths"] > MAX_PATHS:
            raise AnalysisError(f"event grammar: more than {MAX_PATHS} paths in {fi.qual}")
        n = g.nodes[nid]
        if nid == g.exit:
            stats["paths"] += 1
            if stack:
                report(f"path ends with unclosed START {stack[-1][0]}", None, trace)
            return
        if nid == g.raise_exit:
            stats["paths"] += 1
            return
        if n.kind in ("for", "loop"):
            if nid in loop_seen:
                seen_stacks = loop_seen[nid]
                if stack in seen_stacks:
                    return
                if tuple(e for e, _ in stack) != tuple(e for e, _ in seen_stacks[0]):
                    report("loop body is not balanced (element stack differs between iterations)", n.ast or n.stmt, trace)
                    return
                loop_seen = {**loop_seen, nid: seen_stacks + [stack]}
            else:
                loop_seen = {**loop_seen, nid: [stack]}
        # invalidate valuations
        if assigns[nid]:
            vals = {k: v for k, v in vals.items() if not (k[1] & assigns[nid])}
        for ev in evs[nid]:
            trace = trace + [f"{ev.kind}({ev.expr})@{getattr(ev.node, 'lineno', 0)}"]
            if ev.kind == "S":
                if stack:
                    stack = stack[:-1] + ((stack[-1][0], True),)
                stack = stack + ((ev.expr, False),)
                stats["pairs"] += 1
            elif ev.kind == "E":
                if not stack:
                    report(f"END {ev.expr} without a START opened by this function on the path", ev.node, trace)
                    return
                if stack[-1][0] != ev.expr:
                    report(f"END {ev.expr} closes START {stack[-1][0]}", ev.node, trace)
                    return
                stack = stack[:-1]
            elif ev.kind == "A":
                if not stack:
                    if not allow_unopened_attr:
                        report("ATTR emitted with no element opened by this function", ev.node, trace)
                elif stack[-1][1]:
                    report("ATTR emitted after content (DATA / child / nested call) of the open element", ev.node, trace)
            elif ev.kind in ("D", "N"):
                if stack:
                    stack = stack[:-1] + ((stack[-1][0], True),)
            else:
                report(f"unclassified yield {ev.expr}", ev.node, trace)
        succs = g.succ[nid]
        if n.kind == "test":
            key = (ast.unparse(n.ast), frozenset(names_in(n.ast)))
            if key in vals:
                want = "true" if vals[key] else "false"
                succs = [(m, l) for m, l in succs if l == want or l == "exc"]
            for m, lab in succs:
                if lab == "exc":
                    continue
                nv = vals if key in vals else {**vals, key: lab == "true"}
                walk(m, stack, nv, loop_seen, trace, depth + 1)
            return
        for m, lab in succs:
            if lab == "exc":
                continue
            walk(m, stack, vals, loop_seen, trace, depth + 1)

    walk(g.entry, (), {}, {}, [], 0)
    return problems, stats
