"""E1 - repository model: modules, imports, classes (MRO), functions.

Parses every ``*.py`` under ``<root>/xsdata`` exactly once.  Nothing is imported.
"""

from __future__ import annotations

import ast
import os
from dataclasses import dataclass, field
from pathlib import Path
from typing import Iterator


class AnalysisError(Exception):
    """An anchor vanished, a file does not parse, a floor was missed (exit 2)."""


PKG = "xsdata"


@dataclass
class Module:
    name: str
    path: Path
    relpath: str
    src: str
    tree: ast.Module
    imports: dict[str, str] = field(default_factory=dict)  # local -> dotted target
    globals: dict[str, ast.expr] = field(default_factory=dict)  # NAME = expr
    global_ann: dict[str, ast.expr] = field(default_factory=dict)
    is_pkg: bool = False


@dataclass
class FuncInfo:
    qual: str  # "pkg.mod:Class.meth" / "pkg.mod:func"
    module: Module
    cls: "ClassInfo | None"
    node: ast.FunctionDef | ast.AsyncFunctionDef
    name: str

    @property
    def decorators(self) -> list[str]:
        out = []
        for d in self.node.decorator_list:
            if isinstance(d, ast.Call):
                d = d.func
            out.append(ast.unparse(d))
        return out

    @property
    def is_classmethod(self) -> bool:
        return "classmethod" in self.decorators

    @property
    def is_staticmethod(self) -> bool:
        return "staticmethod" in self.decorators

    @property
    def is_property(self) -> bool:
        return any(d in ("property", "cached_property", "functools.cached_property") for d in self.decorators)

    @property
    def is_abstract(self) -> bool:
        return any(d.endswith("abstractmethod") for d in self.decorators)

    @property
    def params(self) -> list[ast.arg]:
        a = self.node.args
        return [*a.posonlyargs, *a.args, *([a.vararg] if a.vararg else []), *a.kwonlyargs, *([a.kwarg] if a.kwarg else [])]

    @property
    def pos_params(self) -> list[ast.arg]:
        a = self.node.args
        return [*a.posonlyargs, *a.args]

    def param_defaults(self) -> dict[str, ast.expr]:
        a = self.node.args
        pos = [*a.posonlyargs, *a.args]
        out: dict[str, ast.expr] = {}
        for arg, d in zip(pos[len(pos) - len(a.defaults):], a.defaults):
            out[arg.arg] = d
        for arg, d in zip(a.kwonlyargs, a.kw_defaults):
            if d is not None:
                out[arg.arg] = d
        return out

    @property
    def loc(self) -> str:
        return f"{self.module.relpath}:{self.node.lineno}"

    def __hash__(self) -> int:
        return hash(self.qual)

    def __eq__(self, other: object) -> bool:
        return isinstance(other, FuncInfo) and other.qual == self.qual


@dataclass
class ClassInfo:
    qual: str  # "pkg.mod:Class" or "pkg.mod:Outer.Inner"
    module: Module
    node: ast.ClassDef
    name: str
    base_exprs: list[str] = field(default_factory=list)
    bases: list[str] = field(default_factory=list)  # resolved dotted/qual names (repo quals or external dotted)
    methods: dict[str, FuncInfo] = field(default_factory=dict)
    attrs: dict[str, ast.expr] = field(default_factory=dict)  # class-level NAME = expr
    ann: dict[str, ast.expr] = field(default_factory=dict)  # class-level NAME: ann
    mro: list["ClassInfo"] = field(default_factory=list)
    ext_bases: list[str] = field(default_factory=list)  # transitive external bases (dotted)
    subclasses: list["ClassInfo"] = field(default_factory=list)  # direct

    @property
    def decorators(self) -> list[str]:
        out = []
        for d in self.node.decorator_list:
            if isinstance(d, ast.Call):
                d = d.func
            out.append(ast.unparse(d))
        return out

    @property
    def is_dataclass(self) -> bool:
        return any(d.split(".")[-1] == "dataclass" for d in self.decorators)

    @property
    def slots(self) -> list[str] | None:
        node = self.attrs.get("__slots__")
        if node is None:
            return None
        if isinstance(node, (ast.Tuple, ast.List)):
            return [e.value for e in node.elts if isinstance(e, ast.Constant)]
        if isinstance(node, ast.Constant) and isinstance(node.value, str):
            return [node.value]
        return []

    def find_method(self, name: str) -> FuncInfo | None:
        for c in self.mro:
            if name in c.methods:
                return c.methods[name]
        return None

    def find_attr(self, name: str) -> "tuple[ClassInfo, ast.expr] | None":
        for c in self.mro:
            if name in c.attrs:
                return c, c.attrs[name]
        return None

    def find_ann(self, name: str) -> "tuple[ClassInfo, ast.expr] | None":
        for c in self.mro:
            if name in c.ann:
                return c, c.ann[name]
        return None

    def all_subclasses(self) -> list["ClassInfo"]:
        out: list[ClassInfo] = []
        seen = set()
        stack = list(self.subclasses)
        while stack:
            c = stack.pop()
            if c.qual in seen:
                continue
            seen.add(c.qual)
            out.append(c)
            stack.extend(c.subclasses)
        return out

    def is_subclass_of(self, qual: str) -> bool:
        return any(c.qual == qual for c in self.mro)

    @property
    def loc(self) -> str:
        return f"{self.module.relpath}:{self.node.lineno}"

    def __hash__(self) -> int:
        return hash(self.qual)

    def __eq__(self, other: object) -> bool:
        return isinstance(other, ClassInfo) and other.qual == self.qual


class Repo:
    """All modules of the analysed package, parsed once."""

    def __init__(self, root: str | os.PathLike | None = None):
        self.root = Path(root or os.environ.get("XSA_REPO") or "/repo").resolve()
        self.pkg_dir = self.root / PKG
        if not self.pkg_dir.is_dir():
            raise AnalysisError(f"package directory missing: {self.pkg_dir}")
        self.modules: dict[str, Module] = {}
        self.classes: dict[str, ClassInfo] = {}
        self.functions: dict[str, FuncInfo] = {}
        self.class_by_name: dict[str, list[ClassInfo]] = {}
        self.methods_by_name: dict[str, list[FuncInfo]] = {}
        self._load()
        self._link()
        self.inline_stats: dict = {}
        if not os.environ.get("XSA_NO_INLINE"):
            from .inline import inline_private_helpers

            self.inline_stats = inline_private_helpers(self)

    # ------------------------------------------------------------------ loading
    def _load(self) -> None:
        for path in sorted(self.pkg_dir.rglob("*.py")):
            rel = path.relative_to(self.root)
            parts = list(rel.with_suffix("").parts)
            is_pkg = parts[-1] == "__init__"
            if is_pkg:
                parts = parts[:-1]
            name = ".".join(parts)
            try:
                src = path.read_text(encoding="utf-8")
                tree = ast.parse(src, filename=str(path))
            except (SyntaxError, UnicodeDecodeError, OSError) as exc:
                raise AnalysisError(f"cannot parse {rel}: {exc}") from exc
            mod = Module(name=name, path=path, relpath=str(rel), src=src, tree=tree, is_pkg=is_pkg)
            self.modules[name] = mod
        for mod in self.modules.values():
            self._scan_module(mod)

    def _scan_module(self, mod: Module) -> None:
        pkg_parts = mod.name.split(".") if mod.is_pkg else mod.name.split(".")[:-1]

        def record_import(node: ast.stmt) -> None:
            if isinstance(node, ast.Import):
                for a in node.names:
                    if a.asname:
                        mod.imports.setdefault(a.asname, a.name)
                    else:
                        top = a.name.split(".")[0]
                        mod.imports.setdefault(top, top)
            elif isinstance(node, ast.ImportFrom):
                if node.level:
                    base = pkg_parts[: len(pkg_parts) - (node.level - 1)]
                    src = ".".join([*base, *([node.module] if node.module else [])])
                else:
                    src = node.module or ""
                for a in node.names:
                    if a.name == "*":
                        continue
                    mod.imports.setdefault(a.asname or a.name, f"{src}.{a.name}")

        # imports anywhere in the module (function-local imports included)
        for node in ast.walk(mod.tree):
            if isinstance(node, (ast.Import, ast.ImportFrom)):
                record_import(node)

        def scan_body(body: list[ast.stmt], cls: ClassInfo | None, prefix: str) -> None:
            for st in body:
                if isinstance(st, (ast.FunctionDef, ast.AsyncFunctionDef)):
                    q = f"{mod.name}:{prefix}{st.name}"
                    fi = FuncInfo(qual=q, module=mod, cls=cls, node=st, name=st.name)
                    # property setters etc share the name: keep the first (getter)
                    if q not in self.functions:
                        self.functions[q] = fi
                        if cls is not None:
                            cls.methods.setdefault(st.name, fi)
                elif isinstance(st, ast.ClassDef):
                    q = f"{mod.name}:{prefix}{st.name}"
                    ci = ClassInfo(qual=q, module=mod, node=st, name=st.name)
                    ci.base_exprs = [ast.unparse(b) for b in st.bases]
                    self.classes[q] = ci
                    self.class_by_name.setdefault(st.name, []).append(ci)
                    scan_body(st.body, ci, f"{prefix}{st.name}.")
                elif isinstance(st, ast.Assign):
                    for t in st.targets:
                        if isinstance(t, ast.Name):
                            if cls is not None:
                                cls.attrs[t.id] = st.value
                            elif not prefix:
                                mod.globals[t.id] = st.value
                elif isinstance(st, ast.AnnAssign) and isinstance(st.target, ast.Name):
                    if cls is not None:
                        cls.ann[st.target.id] = st.annotation
                        if st.value is not None:
                            cls.attrs[st.target.id] = st.value
                    elif not prefix:
                        mod.global_ann[st.target.id] = st.annotation
                        if st.value is not None:
                            mod.globals[st.target.id] = st.value
                elif isinstance(st, (ast.If, ast.Try)) and cls is None and not prefix:
                    # module-level conditional definitions (version / optional deps)
                    for sub in ast.iter_child_nodes(st):
                        if isinstance(sub, ast.stmt):
                            scan_body([sub], cls, prefix)
                        elif isinstance(sub, ast.ExceptHandler):
                            scan_body(sub.body, cls, prefix)

        scan_body(mod.tree.body, None, "")

    # ------------------------------------------------------------------ linking
    def resolve_dotted(self, dotted: str, _depth: int = 0) -> str:
        """Follow re-exports: 'pkg.mod.Name' -> canonical 'pkg.mod2:Name' if a repo symbol.

        Returns a repo qual ("mod:Name"), a repo module name, or the dotted name unchanged
        (external).
        """
        if _depth > 8:
            return dotted
        if dotted in self.modules:
            return dotted
        parts = dotted.split(".")
        for i in range(len(parts) - 1, 0, -1):
            modname = ".".join(parts[:i])
            if modname in self.modules:
                mod = self.modules[modname]
                rest = parts[i:]
                head = rest[0]
                q = f"{modname}:{'.'.join(rest)}"
                if q in self.classes or q in self.functions:
                    return q
                if head in mod.globals and len(rest) == 1:
                    return f"{modname}:{head}"
                if head in mod.imports:
                    target = mod.imports[head]
                    return self.resolve_dotted(".".join([target, *rest[1:]]), _depth + 1)
                # class attribute / method of a class: mod:Class.attr
                q2 = f"{modname}:{head}"
                if q2 in self.classes:
                    return q
                return dotted
        return dotted

    def resolve_name(self, mod: Module, name: str) -> str | None:
        """Resolve a (possibly dotted) source name used in module ``mod``."""
        head, *rest = name.split(".")
        if head in mod.imports:
            return self.resolve_dotted(".".join([mod.imports[head], *rest]))
        q = f"{mod.name}:{name}"
        if q in self.classes or q in self.functions:
            return q
        if f"{mod.name}:{head}" in self.classes:
            return q
        if head in mod.globals:
            return f"{mod.name}:{name}"
        return None

    def _link(self) -> None:
        for ci in self.classes.values():
            for b in ci.base_exprs:
                base = b.split("[")[0]
                r = self.resolve_name(ci.module, base)
                if r is None:
                    # sibling nested class?
                    outer = ci.qual.rsplit(".", 1)[0] if "." in ci.qual.split(":")[1] else None
                    if outer and f"{outer}.{base}" in self.classes:
                        r = f"{outer}.{base}"
                ci.bases.append(r or base)
        for ci in self.classes.values():
            for b in ci.bases:
                if b in self.classes:
                    self.classes[b].subclasses.append(ci)
        for ci in self.classes.values():
            ci.mro = self._mro(ci)
            ext: list[str] = []
            for c in ci.mro:
                for b in c.bases:
                    if b not in self.classes and b not in ext:
                        ext.append(b)
            ci.ext_bases = ext
        for fi in self.functions.values():
            self.methods_by_name.setdefault(fi.name, []).append(fi)

    def _mro(self, ci: ClassInfo) -> list[ClassInfo]:
        def lin(c: ClassInfo, depth: int = 0) -> list[ClassInfo]:
            if depth > 30:
                return [c]
            seqs = [lin(self.classes[b], depth + 1) for b in c.bases if b in self.classes]
            seqs.append([self.classes[b] for b in c.bases if b in self.classes])
            out = [c]
            seqs = [list(s) for s in seqs if s]
            while seqs:
                for s in seqs:
                    cand = s[0]
                    if not any(cand in t[1:] for t in seqs):
                        break
                else:
                    # inconsistent hierarchy; fall back to dfs order
                    for s in seqs:
                        for x in s:
                            if x not in out:
                                out.append(x)
                    return out
                out.append(cand)
                for s in seqs:
                    if s and s[0] == cand:
                        s.pop(0)
                seqs = [s for s in seqs if s]
            return out

        return lin(ci)

    # ------------------------------------------------------------------ anchors
    def module(self, name: str) -> Module:
        m = self.modules.get(name)
        if m is None:
            raise AnalysisError(f"anchor vanished: module {name}")
        return m

    def cls(self, qual: str) -> ClassInfo:
        c = self.classes.get(qual)
        if c is None:
            raise AnalysisError(f"anchor vanished: class {qual}")
        return c

    def func(self, qual: str) -> FuncInfo:
        f = self.functions.get(qual)
        if f is None:
            raise AnalysisError(f"anchor vanished: function {qual}")
        return f

    def func_opt(self, qual: str) -> FuncInfo | None:
        return self.functions.get(qual)

    def method(self, cls_qual: str, name: str) -> FuncInfo:
        c = self.cls(cls_qual)
        m = c.find_method(name)
        if m is None:
            raise AnalysisError(f"anchor vanished: method {cls_qual}.{name}")
        return m

    def funcs_in(self, *prefixes: str) -> Iterator[FuncInfo]:
        for q, f in self.functions.items():
            if any(f.module.name == p or f.module.name.startswith(p + ".") for p in prefixes):
                yield f

    def modules_in(self, *prefixes: str) -> Iterator[Module]:
        for n, m in self.modules.items():
            if any(n == p or n.startswith(p + ".") for p in prefixes):
                yield m

    def read(self, rel: str) -> str:
        p = self.root / rel
        try:
            return p.read_text(encoding="utf-8")
        except OSError as exc:
            raise AnalysisError(f"anchor vanished: file {rel}: {exc}") from exc

    def stats(self) -> dict:
        return {
            "modules": len(self.modules),
            "classes": len(self.classes),
            "functions": len(self.functions),
        }


# ---------------------------------------------------------------------- helpers


def walk_no_nested(node: ast.AST, include_lambda: bool = True) -> Iterator[ast.AST]:
    """ast.walk that does not descend into nested function / class definitions."""
    stack = list(ast.iter_child_nodes(node))
    while stack:
        n = stack.pop()
        yield n
        if isinstance(n, (ast.FunctionDef, ast.AsyncFunctionDef, ast.ClassDef)):
            continue
        if isinstance(n, ast.Lambda) and not include_lambda:
            continue
        stack.extend(ast.iter_child_nodes(n))


def ordered_stmts(fn: ast.AST) -> Iterator[ast.stmt]:
    """Statements of a function in syntactic (execution-text) order, nested blocks included, nested defs not entered.

    Line numbers cannot be used for ordering: statements of an inlined helper keep the helper's own positions."""
    def block(body: list[ast.stmt]) -> Iterator[ast.stmt]:
        for st in body:
            yield st
            if isinstance(st, (ast.FunctionDef, ast.AsyncFunctionDef, ast.ClassDef)):
                continue
            for field in ("body", "orelse"):
                sub = getattr(st, field, None)
                if isinstance(sub, list) and sub and isinstance(sub[0], ast.stmt):
                    yield from block(sub)
            for h in getattr(st, "handlers", []) or []:
                yield from block(h.body)
            sub = getattr(st, "finalbody", None)
            if sub:
                yield from block(sub)
            for case in getattr(st, "cases", []) or []:
                yield from block(case.body)

    yield from block(getattr(fn, "body", []))


def dotted_name(node: ast.AST) -> str | None:
    """``a.b.c`` -> "a.b.c" for Name/Attribute chains, else None."""
    parts: list[str] = []
    while isinstance(node, ast.Attribute):
        parts.append(node.attr)
        node = node.value
    if isinstance(node, ast.Name):
        parts.append(node.id)
        return ".".join(reversed(parts))
    return None


class _Renamer(ast.NodeTransformer):
    def __init__(self, locals_: set[str]):
        self.map: dict[str, str] = {}
        self.locals = locals_

    def visit_Name(self, node: ast.Name) -> ast.AST:
        if node.id in self.locals:
            new = self.map.setdefault(node.id, f"_v{len(self.map)}")
            return ast.copy_location(ast.Name(id=new, ctx=node.ctx), node)
        return node

    def visit_arg(self, node: ast.arg) -> ast.AST:
        if node.arg in self.locals:
            new = self.map.setdefault(node.arg, f"_v{len(self.map)}")
            return ast.copy_location(ast.arg(arg=new, annotation=node.annotation), node)
        return node


def local_names(fn: ast.AST) -> set[str]:
    out: set[str] = set()
    if isinstance(fn, (ast.FunctionDef, ast.AsyncFunctionDef, ast.Lambda)):
        a = fn.args
        for arg in [*a.posonlyargs, *a.args, *a.kwonlyargs, *([a.vararg] if a.vararg else []), *([a.kwarg] if a.kwarg else [])]:
            if arg.arg not in ("self", "cls"):
                out.add(arg.arg)
    for n in ast.walk(fn):
        if isinstance(n, ast.Name) and isinstance(n.ctx, (ast.Store, ast.Del)):
            out.add(n.id)
    return out


def norm_text(node: ast.AST, fn: ast.AST | None = None) -> str:
    """Normalised construct text: unparse with function locals alpha-renamed.

    Stable under reformatting, moving code and renaming locals.
    """
    import copy

    if fn is None:
        return ast.unparse(node)
    r = _Renamer(local_names(fn))
    # rename in order of first appearance inside the *construct* only
    new = r.visit(copy.deepcopy(node))
    return ast.unparse(new)


def const_str(node: ast.AST | None) -> str | None:
    if isinstance(node, ast.Constant) and isinstance(node.value, str):
        return node.value
    return None


class _Anon(ast.NodeTransformer):
    def __init__(self, locals_: set[str]):
        self.locals = locals_

    def visit_Name(self, node: ast.Name) -> ast.AST:
        if node.id in self.locals:
            return ast.copy_location(ast.Name(id="_", ctx=node.ctx), node)
        return node

    def visit_arg(self, node: ast.arg) -> ast.AST:
        if node.arg in self.locals:
            return ast.copy_location(ast.arg(arg="_", annotation=node.annotation), node)
        return node


def anon_text(node: ast.AST, fn: ast.AST | None = None) -> str:
    """Unparse with every local name / parameter of ``fn`` replaced by ``_`` and whitespace removed.

    Used for structural pattern checks that must not depend on how locals are called.
    """
    import copy

    fn = fn if fn is not None else node
    new = _Anon(local_names(fn)).visit(copy.deepcopy(node))
    return ast.unparse(new).replace(" ", "").replace("\n", ";")
