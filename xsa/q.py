"""Small syntactic query helpers shared by the rules."""

from __future__ import annotations

import ast
from typing import Iterable, Iterator

from .cfg import CFG, Node, build_cfg, call_name, calls_in, node_calls
from .model import FuncInfo, anon_text, dotted_name, walk_no_nested

MUTATORS = {
    "append", "extend", "insert", "pop", "remove", "clear", "update", "setdefault", "add", "discard",
    "sort", "reverse", "popitem", "appendleft", "popleft", "__setitem__", "__delitem__",
}


def is_self_attr(node: ast.AST, attr: str | None = None, recv: Iterable[str] = ("self",)) -> bool:
    return (
        isinstance(node, ast.Attribute)
        and isinstance(node.value, ast.Name)
        and node.value.id in recv
        and (attr is None or node.attr == attr)
    )


def self_calls(fn: ast.AST, name: str | None = None) -> list[ast.Call]:
    """Calls of the form self.<name>(...) / cls.<name>(...) in fn (no nested defs)."""
    out = []
    for c in calls_in(fn):
        if isinstance(c.func, ast.Attribute) and is_self_attr(c.func, name, ("self", "cls")):
            out.append(c)
    return out


def attr_method_calls(fn: ast.AST, attr: str, meth: str | None = None) -> list[ast.Call]:
    """Calls self.<attr>.<meth>(...)."""
    out = []
    for c in calls_in(fn):
        f = c.func
        if isinstance(f, ast.Attribute) and is_self_attr(f.value, attr) and (meth is None or f.attr == meth):
            out.append(c)
    return out


def stores(fn: ast.AST) -> Iterator[tuple[ast.stmt, ast.expr, ast.expr | None]]:
    """(statement, target, value) for every assignment-like store in fn (no nested defs)."""
    for n in [fn, *walk_no_nested(fn)]:
        if isinstance(n, ast.Assign):
            for t in n.targets:
                for tt in _flatten_targets(t):
                    yield n, tt, n.value
        elif isinstance(n, ast.AnnAssign):
            if n.value is not None or True:
                yield n, n.target, n.value
        elif isinstance(n, ast.AugAssign):
            yield n, n.target, n.value
        elif isinstance(n, ast.Delete):
            for t in n.targets:
                yield n, t, None
        elif isinstance(n, (ast.For, ast.AsyncFor)):
            for tt in _flatten_targets(n.target):
                yield n, tt, None
        elif isinstance(n, ast.NamedExpr):
            yield n, n.target, n.value  # type: ignore[misc]


def _flatten_targets(t: ast.expr) -> Iterator[ast.expr]:
    if isinstance(t, (ast.Tuple, ast.List)):
        for e in t.elts:
            yield from _flatten_targets(e)
    elif isinstance(t, ast.Starred):
        yield from _flatten_targets(t.value)
    else:
        yield t


def self_attr_stores(fn: ast.AST, attr: str | None = None) -> list[tuple[ast.stmt, ast.Attribute, ast.expr | None]]:
    out = []
    for st, tgt, val in stores(fn):
        if is_self_attr(tgt, attr):
            out.append((st, tgt, val))
    return out


def names_in(node: ast.AST) -> set[str]:
    return {n.id for n in ast.walk(node) if isinstance(n, ast.Name)}


def assigned_names(node: ast.AST) -> set[str]:
    out: set[str] = set()
    for n in ast.walk(node):
        if isinstance(n, ast.Name) and isinstance(n.ctx, (ast.Store, ast.Del)):
            out.add(n.id)
    return out


def root_name(node: ast.AST) -> str | None:
    """x.a.b[c].d -> 'x'."""
    while isinstance(node, (ast.Attribute, ast.Subscript, ast.Call)):
        node = node.value if not isinstance(node, ast.Call) else node.func
    return node.id if isinstance(node, ast.Name) else None


def kwarg(call: ast.Call, name: str) -> ast.expr | None:
    for k in call.keywords:
        if k.arg == name:
            return k.value
    return None


def arg_or_kw(call: ast.Call, pos: int, name: str) -> ast.expr | None:
    """Effective argument for a parameter given positionally at ``pos`` or by keyword."""
    k = kwarg(call, name)
    if k is not None:
        return k
    if pos < len(call.args) and not any(isinstance(a, ast.Starred) for a in call.args[: pos + 1]):
        return call.args[pos]
    return None


def bound_arg(call: ast.Call, callee: FuncInfo, param: str) -> ast.expr | None:
    """Argument expression bound to ``param`` of ``callee`` at this call (None = default / unknown)."""
    k = kwarg(call, param)
    if k is not None:
        return k
    pos = [a.arg for a in callee.pos_params]
    if callee.cls is not None and not callee.is_staticmethod and pos and pos[0] in ("self", "cls"):
        pos = pos[1:]
    if param in pos:
        return arg_or_kw(call, pos.index(param), param)
    return None


def unparse(node: ast.AST | None) -> str:
    return "" if node is None else ast.unparse(node)


def cfg_nodes_calling(g: CFG, pred) -> list[Node]:
    out = []
    for n in g.stmts():
        if any(pred(c) for c in node_calls(n)):
            out.append(n)
    return out


def is_call_to_self(c: ast.Call, name: str) -> bool:
    return isinstance(c.func, ast.Attribute) and is_self_attr(c.func, name, ("self", "cls"))


def find_tests_mentioning(g: CFG, text: str) -> list[Node]:
    """Atomic test nodes whose source text contains ``text`` (after unparse)."""
    return [n for n in g.nodes if n.kind == "test" and n.ast is not None and text in ast.unparse(n.ast)]


def enum_members(cls_node: ast.ClassDef) -> dict[str, ast.expr]:
    out: dict[str, ast.expr] = {}
    for st in cls_node.body:
        if isinstance(st, ast.Assign) and len(st.targets) == 1 and isinstance(st.targets[0], ast.Name):
            n = st.targets[0].id
            if not n.startswith("_"):
                out[n] = st.value
        elif isinstance(st, ast.AnnAssign) and isinstance(st.target, ast.Name) and st.value is not None:
            if not st.target.id.startswith("_"):
                out[st.target.id] = st.value
    return out


def self_attr_writes(fi: FuncInfo, _seen: set[str] | None = None) -> set[str]:
    """Attributes of ``self`` a method may write (stores, augmented stores, mutator calls), through self-calls."""
    seen = _seen if _seen is not None else set()
    if fi.qual in seen:
        return set()
    seen.add(fi.qual)
    out: set[str] = set()
    for st, tgt, _ in stores(fi.node):
        base = tgt
        while isinstance(base, ast.Subscript):
            base = base.value
        if is_self_attr(base):
            out.add(base.attr)
    for c in calls_in(fi.node):
        f = c.func
        if isinstance(f, ast.Attribute) and f.attr in MUTATORS and is_self_attr(f.value):
            out.add(f.value.attr)
        if isinstance(f, ast.Attribute) and is_self_attr(f, None, ("self",)) and fi.cls is not None:
            m = fi.cls.find_method(f.attr)
            if m is not None:
                out |= self_attr_writes(m, seen)
    return out


def asrc(fi: FuncInfo) -> str:
    """Anonymised source of a function: locals and parameters replaced by ``_``, no spaces, statements joined by ';'."""
    cached = getattr(fi.node, "_xsa_asrc", None)
    if cached is None:
        import copy

        node = copy.deepcopy(fi.node)
        # drop the docstring
        if node.body and isinstance(node.body[0], ast.Expr) and isinstance(node.body[0].value, ast.Constant) and isinstance(node.body[0].value.value, str):
            node.body = node.body[1:] or [ast.Pass()]
        cached = anon_text(node, fi.node)
        fi.node._xsa_asrc = cached  # type: ignore[attr-defined]
    return cached


def A(pattern: str) -> str:
    """Normalise a pattern the same way as asrc (spaces removed)."""
    return pattern.replace(" ", "")


def L(fi: FuncInfo, node: ast.AST | None) -> str:
    """Anonymised text of an expression of ``fi``: locals and parameters read as ``_``, spaces removed.

    Rules compare against this (with ``A("...")``) instead of raw source text, so that renaming a local never
    changes a verdict."""
    return "" if node is None else anon_text(node, fi.node)


def key_test(test: ast.AST, is_subject) -> tuple[frozenset[str], bool] | None:
    """An atomic test that compares the dispatch subject with constant keys.

    Returns (keys, positive): the test is true iff subject in keys (positive) / not in keys (not positive)."""
    if not isinstance(test, ast.Compare) or len(test.ops) != 1:
        return None
    left, op, right = test.left, test.ops[0], test.comparators[0]
    if isinstance(op, (ast.Eq, ast.Is, ast.NotEq, ast.IsNot)):
        if is_subject(left):
            other = right
        elif is_subject(right):
            other = left
        else:
            return None
        return frozenset([ast.unparse(other)]), isinstance(op, (ast.Eq, ast.Is))
    if isinstance(op, (ast.In, ast.NotIn)) and is_subject(left) and isinstance(right, (ast.Tuple, ast.List, ast.Set)):
        return frozenset(ast.unparse(e) for e in right.elts), isinstance(op, ast.In)
    return None


class Dispatch:
    """Partial evaluation of a function over one dispatch subject (``x == K`` / ``x is K`` / ``x in (K1, K2)`` tests).

    ``under(K)`` = CFG nodes reachable when the subject equals K; ``under(None)`` = when it equals none of the keys
    the function mentions.  Independent of if/elif orientation, nesting, early returns and branch order."""

    def __init__(self, fn: ast.AST, is_subject=None, classify=None, extra=None) -> None:
        self.g = build_cfg(fn)
        self.is_subject = is_subject
        self.classify = classify
        self.extra = extra  # optional: fixed outcome (True / False) for tests that are not key tests
        self.tests: dict[int, tuple[frozenset[str], bool]] = {}
        for n in self.g.nodes:
            if n.kind == "test" and n.ast is not None:
                kt = classify(n.ast) if classify is not None else key_test(n.ast, is_subject)
                if kt is not None:
                    self.tests[n.id] = kt
        self.keys: set[str] = set().union(*[k for k, _ in self.tests.values()]) if self.tests else set()
        for x in walk_no_nested(fn):
            if isinstance(x, ast.Compare):
                kt = classify(x) if classify is not None else (key_test(x, is_subject) if is_subject is not None else None)
                if kt is not None:
                    self.keys |= set(kt[0])

    def under(self, key: str | None) -> list[Node]:
        def decide(n: Node) -> bool | None:
            kt = self.tests.get(n.id)
            if kt is None:
                if isinstance(n.ast, ast.Name):
                    v = self._named_condition(key, n)
                    if v is not None:
                        return v
                return self.extra(n.ast) if self.extra is not None and n.ast is not None else None
            keys, positive = kt
            return (key in keys) == positive

        ids = self.g.reach_assuming(decide)
        return [n for n in self.g.nodes if n.id in ids]

    def only_if_under(self, key: str | None, target: int, test_node: int, polarity: bool) -> bool:
        """Control dependence relative to the assumption subject == key: with the key's decided edges removed, is ``target`` reached
        only through the ``polarity`` outcome of ``test_node``?"""
        def decide(n: Node) -> bool | None:
            kt = self.tests.get(n.id)
            if kt is None:
                if isinstance(n.ast, ast.Name):
                    v = self._named_condition(key, n)
                    if v is not None:
                        return v
                return self.extra(n.ast) if self.extra is not None and n.ast is not None else None
            return (key in kt[0]) == kt[1]

        be = []
        for n in self.g.nodes:
            if n.kind != "test":
                continue
            dd = decide(n)
            if dd is not None:
                drop = "false" if dd else "true"
                be += [(n.id, m, l) for m, l in self.g.succ[n.id] if l == drop]
        lab = "true" if polarity else "false"
        cut = [(test_node, m, l) for m, l in self.g.succ[test_node] if l == lab]
        if not cut:
            return False
        return target in self.g.reachable([self.g.entry], blocked_edges=be) and target not in self.g.reachable([self.g.entry], blocked_edges=be + cut)

    def _named_condition(self, key: str | None, t: Node) -> bool | None:
        """Outcome of a test on a named boolean (``is_fixed = default == X.FIXED`` ... ``if is_fixed:``) under ``key``: decided when
        every definition that reaches the test is a pure combination of key tests with the same truth value."""
        found, hit_entry = reaching_defs(self.g, t.id, t.ast.id)
        table = _def_nodes(self.g).get(t.ast.id, {})
        if not found or hit_entry:
            return None

        def pure(e: ast.expr) -> bool | None:
            if isinstance(e, ast.UnaryOp) and isinstance(e.op, ast.Not):
                v = pure(e.operand)
                return None if v is None else not v
            if isinstance(e, ast.BoolOp):
                vals = [pure(x) for x in e.values]
                if isinstance(e.op, ast.Or):
                    return True if any(v is True for v in vals) else (False if all(v is False for v in vals) else None)
                return False if any(v is False for v in vals) else (True if all(v is True for v in vals) else None)
            kt = self.classify(e) if self.classify is not None else (key_test(e, self.is_subject) if self.is_subject is not None and isinstance(e, ast.Compare) else None)
            if kt is not None:
                return (key in kt[0]) == kt[1]
            return None

        vals = {pure(table[d]) if table[d] is not None else None for d in found}
        return vals.pop() if len(vals) == 1 else None

    # ---- expression-level partial evaluation (conditions kept in named booleans / conditional expressions)
    def truth_under(self, fi: FuncInfo, key: str | None, at: Node, e: ast.expr, depth: int = 5) -> bool | None:
        """Truth of a condition when the subject equals ``key`` (None = undetermined)."""
        if depth <= 0:
            return None
        if isinstance(e, ast.Constant):
            return bool(e.value)
        if isinstance(e, ast.UnaryOp) and isinstance(e.op, ast.Not):
            v = self.truth_under(fi, key, at, e.operand, depth - 1)
            return None if v is None else not v
        if isinstance(e, ast.BoolOp):
            vals = [self.truth_under(fi, key, at, x, depth - 1) for x in e.values]
            if isinstance(e.op, ast.Or):
                return True if any(v is True for v in vals) else (False if all(v is False for v in vals) else None)
            return False if any(v is False for v in vals) else (True if all(v is True for v in vals) else None)
        if isinstance(e, ast.Compare):
            kt = self.classify(e) if self.classify is not None else key_test(e, self.is_subject)
            if kt is not None:
                keys, positive = kt
                return (key in keys) == positive
            return None
        if isinstance(e, ast.Name):
            vals = {self.truth_under(fi, key, d, v, depth - 1) for v, d in self._defs_under(fi, key, at, e)}
            return vals.pop() if len(vals) == 1 else None
        return None

    def blocked_under(self, key: str | None) -> set:
        """The out-edges that cannot be taken when the subject equals ``key``."""
        cache = self.__dict__.setdefault("_blocked", {})
        if key not in cache:
            be = set()
            for n in self.g.nodes:
                if n.kind != "test":
                    continue
                kt = self.tests.get(n.id)
                if kt is not None:
                    dd = (key in kt[0]) == kt[1]
                elif isinstance(n.ast, ast.Name):
                    dd = self._named_condition(key, n)
                    if dd is None and self.extra is not None:
                        dd = self.extra(n.ast)
                else:
                    dd = self.extra(n.ast) if self.extra is not None and n.ast is not None else None
                if dd is not None:
                    drop = "false" if dd else "true"
                    be |= {(n.id, m, l) for m, l in self.g.succ[n.id] if l == drop}
            cache[key] = be
        return cache[key]

    def _defs_under(self, fi: FuncInfo, key: str | None, at: Node, name: ast.Name) -> list[tuple[ast.expr, Node]]:
        ids = {n.id for n in self.under(key)}
        found, hit_entry = reaching_defs(self.g, at.id, name.id, self.blocked_under(key))
        table = _def_nodes(self.g).get(name.id, {})
        return [(table[d], self.g.nodes[d]) for d in found if d in ids and table[d] is not None and d != at.id]

    def values_under(self, fi: FuncInfo, key: str | None, at: Node, e: ast.expr, depth: int = 6) -> list[ast.expr]:
        """Leaf expressions ``e`` can evaluate to at node ``at`` when the subject equals ``key``: conditional expressions are decided,
        locals are followed through the definitions that are reachable under the key."""
        if depth <= 0:
            return [e]
        if isinstance(e, ast.IfExp):
            t = self.truth_under(fi, key, at, e.test)
            arms = [e.body] if t is True else ([e.orelse] if t is False else [e.body, e.orelse])
            return [x for a in arms for x in self.values_under(fi, key, at, a, depth - 1)]
        if isinstance(e, ast.Name) and isinstance(e.ctx, ast.Load):
            defs = self._defs_under(fi, key, at, e)
            if defs:
                return [x for v, d in defs for x in self.values_under(fi, key, d, v, depth - 1)]
        return [e]

    def exclusive(self, key: str | None) -> list[Node]:
        """Nodes reachable under ``key`` and under no other key (for None: the genuine default branch)."""
        mine = {n.id for n in self.under(key)}
        for k in [*sorted(self.keys), None]:
            if k != key:
                mine -= {n.id for n in self.under(k)}
        return [n for n in self.g.nodes if n.id in mine]

    def specific(self, key: str | None) -> list[Node]:
        """Nodes reachable under ``key`` but not under every other key / the default."""
        mine = {n.id for n in self.under(key)}
        others = [k for k in [*sorted(self.keys), None] if k != key]
        common = set(mine)
        for k in others:
            common &= {n.id for n in self.under(k)}
        return [n for n in self.g.nodes if n.id in mine - common]


def dict_literals(nodes) -> list[dict[str, str]]:
    """Constant-keyed dict literals (key -> value source text) in the statements of the given CFG nodes."""
    out: list[dict[str, str]] = []
    for n in nodes:
        if n.ast is None or n.kind == "test":
            continue
        for sub in ast.walk(n.ast):
            if isinstance(sub, ast.Dict) and any(isinstance(k, ast.Constant) for k in sub.keys):
                out.append({k.value: ast.unparse(v) for k, v in zip(sub.keys, sub.values) if isinstance(k, ast.Constant)})
    return out


def single_defs(fn: ast.AST) -> dict[str, ast.expr]:
    """Locals assigned exactly once in ``fn`` by a plain (annotated) assignment: name -> value expression."""
    cached = getattr(fn, "_xsa_single_defs", None)
    if cached is not None:
        return cached
    count: dict[str, int] = {}
    value: dict[str, ast.expr] = {}
    params = set()
    if isinstance(fn, (ast.FunctionDef, ast.AsyncFunctionDef)):
        a = fn.args
        params = {x.arg for x in [*a.posonlyargs, *a.args, *a.kwonlyargs, *([a.vararg] if a.vararg else []), *([a.kwarg] if a.kwarg else [])]}
    for st, tgt, val in stores(fn):
        if isinstance(tgt, ast.Name):
            count[tgt.id] = count.get(tgt.id, 0) + 1
            if isinstance(st, (ast.Assign, ast.AnnAssign)) and val is not None and not (isinstance(st, ast.Assign) and isinstance(st.targets[0], (ast.Tuple, ast.List))):
                value[tgt.id] = val
            else:
                count[tgt.id] += 1  # loop targets, augmented stores, unpacking: not a single definition
    for n in walk_no_nested(fn):
        if isinstance(n, (ast.With, ast.AsyncWith)):
            for it in n.items:
                if isinstance(it.optional_vars, ast.Name):
                    count[it.optional_vars.id] = count.get(it.optional_vars.id, 0) + 2
        elif isinstance(n, ast.ExceptHandler) and n.name:
            count[n.name] = count.get(n.name, 0) + 2
    out = {k: v for k, v in value.items() if count.get(k) == 1 and k not in params}
    try:
        fn._xsa_single_defs = out  # type: ignore[attr-defined]
    except AttributeError:
        pass
    return out


def expand(fn: ast.AST, e: ast.expr | None, depth: int = 5) -> ast.expr | None:
    """``e`` with every single-assignment local replaced by its defining expression (temporaries looked through)."""
    if e is None:
        return None
    defs = single_defs(fn)
    if not defs:
        return e
    import copy

    class T(ast.NodeTransformer):
        def __init__(self, d: int) -> None:
            self.d = d

        def visit_Name(self, n: ast.Name) -> ast.AST:
            if isinstance(n.ctx, ast.Load) and n.id in defs and self.d > 0:
                return T(self.d - 1).visit(copy.deepcopy(defs[n.id]))
            return n

    return T(depth).visit(copy.deepcopy(e))


def X(fi: FuncInfo, node: ast.AST | None) -> str:
    """Anonymised text of an expression with temporaries expanded (see ``expand`` and ``L``)."""
    if node is None:
        return ""
    return anon_text(expand(fi.node, node), fi.node)


def expand_all(fn: ast.AST, e: ast.expr | None, limit: int = 8) -> list[ast.expr]:
    """Alternatives of ``e``: a local with several plain assignments (e.g. the result slot of an inlined helper) is
    replaced by each of its definitions; single-assignment temporaries are expanded as in ``expand``."""
    if e is None:
        return []
    e = expand(fn, e)
    if isinstance(e, ast.Name) and isinstance(e.ctx, ast.Load):
        defs = [v for st, tgt, v in stores(fn) if isinstance(tgt, ast.Name) and tgt.id == e.id and v is not None and isinstance(st, (ast.Assign, ast.AnnAssign))
                and not (isinstance(st, ast.Assign) and isinstance(st.targets[0], (ast.Tuple, ast.List)))]
        params = set()
        if isinstance(fn, (ast.FunctionDef, ast.AsyncFunctionDef)):
            params = {a.arg for a in [*fn.args.posonlyargs, *fn.args.args, *fn.args.kwonlyargs]}
        if len(defs) > 1 and e.id not in params:
            out: list[ast.expr] = []
            for d in defs[:limit]:
                if not (isinstance(d, ast.Name) and d.id == e.id):
                    out += expand_all(fn, d, limit) if not any(isinstance(x, ast.Name) and x.id == e.id for x in ast.walk(d)) else [d]
            return out[:limit]
    return [e]


def return_values(fn: ast.AST) -> list[ast.expr]:
    """All value expressions the function can return (temporaries and inlined-helper result slots looked through)."""
    out: list[ast.expr] = []
    for r in walk_no_nested(fn):
        if isinstance(r, ast.Return):
            out += expand_all(fn, r.value) if r.value is not None else [ast.Constant(value=None)]
    return out


def names_from_calls(fn: ast.AST, callee_names: Iterable[str], index: int | None = None) -> set[str]:
    """Locals assigned from a call to one of ``callee_names`` (last attribute / bare name); ``index`` selects the
    position inside a tuple-unpacking target (None = plain assignment or any position)."""
    want = set(callee_names)
    out: set[str] = set()
    for n in [fn, *walk_no_nested(fn)]:
        if isinstance(n, (ast.Assign, ast.AnnAssign)) and isinstance(n.value, ast.Call):
            f = n.value.func
            nm = f.attr if isinstance(f, ast.Attribute) else (f.id if isinstance(f, ast.Name) else "")
            if nm not in want:
                continue
            targets = n.targets if isinstance(n, ast.Assign) else [n.target]
            for t in targets:
                if isinstance(t, ast.Name) and index is None:
                    out.add(t.id)
                elif isinstance(t, (ast.Tuple, ast.List)):
                    elts = t.elts if index is None else t.elts[index:index + 1] if -len(t.elts) <= index < len(t.elts) else []
                    out |= {e.id for e in elts if isinstance(e, ast.Name)}
    return out


def call_name_of(c: ast.Call) -> str:
    f = c.func
    return f.attr if isinstance(f, ast.Attribute) else (f.id if isinstance(f, ast.Name) else "")


def guarded_subscripts(fn: ast.AST, mapping_text: str) -> list[tuple[ast.Subscript, bool]]:
    """Every load ``M[K]`` of the named mapping with: is it executed only when a test ``K in M`` was true?"""
    g = build_cfg(fn)
    out: list[tuple[ast.Subscript, bool]] = []
    for n in g.nodes:
        if n.ast is None:
            continue
        roots = [n.ast] if n.kind == "test" else header_exprs_of(n)
        for root in roots:
            for sub in ast.walk(root):
                if isinstance(sub, ast.Subscript) and isinstance(sub.ctx, ast.Load) and ast.unparse(sub.value) == mapping_text:
                    key = ast.unparse(sub.slice)
                    ok = any(t.kind == "test" and isinstance(t.ast, ast.Compare) and len(t.ast.ops) == 1 and isinstance(t.ast.ops[0], (ast.In, ast.NotIn))
                             and ast.unparse(t.ast.left) == key and ast.unparse(t.ast.comparators[0]) == mapping_text and g.only_if(n.id, t.id, isinstance(t.ast.ops[0], ast.In)) for t in g.nodes)
                    out.append((sub, ok))
    return out


def header_exprs_of(n: Node) -> list[ast.AST]:
    from .cfg import header_exprs

    return header_exprs(n.ast) if n.ast is not None and isinstance(n.ast, ast.stmt) else ([n.ast] if n.ast is not None else [])


def _def_nodes(g: CFG) -> dict[str, dict[int, ast.expr | None]]:
    """name -> {cfg node id: defining value (None = opaque definition: loop target, unpacking, augmented, with/except)}."""
    cached = getattr(g, "_xsa_defs", None)
    if cached is not None:
        return cached
    out: dict[str, dict[int, ast.expr | None]] = {}
    for n in g.nodes:
        st = n.ast
        if st is None:
            continue
        if n.kind == "test":
            # `(x := e)` evaluated by the test defines x with value e
            for x in ast.walk(st):
                if isinstance(x, ast.NamedExpr) and isinstance(x.target, ast.Name):
                    out.setdefault(x.target.id, {})[n.id] = x.value
            continue
        if n.kind == "for" and isinstance(st, (ast.For, ast.AsyncFor)):
            for t in ast.walk(st.target):
                if isinstance(t, ast.Name):
                    out.setdefault(t.id, {})[n.id] = None
            continue
        if n.kind == "with" and isinstance(st, (ast.With, ast.AsyncWith)):
            for it in st.items:
                for t in ast.walk(it.optional_vars) if it.optional_vars is not None else []:
                    if isinstance(t, ast.Name):
                        out.setdefault(t.id, {})[n.id] = None
            continue
        if n.kind == "except" and isinstance(st, ast.ExceptHandler) and st.name:
            out.setdefault(st.name, {})[n.id] = None
            continue
        if n.kind != "stmt":
            continue
        if isinstance(st, ast.Assign):
            for t in st.targets:
                if isinstance(t, ast.Name):
                    out.setdefault(t.id, {})[n.id] = st.value
                elif isinstance(t, (ast.Tuple, ast.List)) and all(isinstance(x, ast.Name) for x in t.elts):
                    # a, b = <value>: a is <value>[0], b is <value>[1] (looked through by `flows` when <value> is a tuple display)
                    for i, x in enumerate(t.elts):
                        out.setdefault(x.id, {})[n.id] = ast.copy_location(ast.Subscript(value=st.value, slice=ast.Constant(value=i), ctx=ast.Load()), st)
                else:
                    for x in ast.walk(t):
                        if isinstance(x, ast.Name) and isinstance(x.ctx, ast.Store):
                            out.setdefault(x.id, {})[n.id] = None
        elif isinstance(st, ast.AnnAssign) and isinstance(st.target, ast.Name) and st.value is not None:
            out.setdefault(st.target.id, {})[n.id] = st.value
        elif isinstance(st, ast.AugAssign) and isinstance(st.target, ast.Name):
            # x op= v  defines x as (previous x) op v
            out.setdefault(st.target.id, {})[n.id] = ast.copy_location(ast.BinOp(left=ast.Name(id=st.target.id, ctx=ast.Load()), op=st.op, right=st.value), st)
        if isinstance(st, ast.stmt):
            for x in ast.walk(st):
                if isinstance(x, ast.NamedExpr) and isinstance(x.target, ast.Name):
                    out.setdefault(x.target.id, {})[n.id] = None
    g._xsa_defs = out  # type: ignore[attr-defined]
    return out


def reaching_def(g: CFG, at: int, name: str) -> ast.expr | None:
    """The value of the unique plain assignment of ``name`` that reaches CFG node ``at`` (None if ambiguous / opaque / a parameter)."""
    defs = _def_nodes(g).get(name)
    if not defs:
        return None
    found: set[int] = set()
    seen: set[int] = set()
    stack = [p for p, _ in g.pred[at]]
    hit_entry = False
    while stack:
        n = stack.pop()
        if n in seen:
            continue
        seen.add(n)
        if n in defs:
            found.add(n)
            continue
        if n == g.entry:
            hit_entry = True
        stack.extend(p for p, _ in g.pred[n])
    if len(found) == 1 and not hit_entry:
        return defs[next(iter(found))]
    return None


def expand_at(fi: FuncInfo, node: Node, e: ast.expr | None, depth: int = 4) -> ast.expr | None:
    """``e`` as evaluated at CFG node ``node`` with locals replaced by their unique reaching definition (flow-sensitive)."""
    if e is None or depth <= 0:
        return e
    import copy

    g = build_cfg(fi.node)
    defs = _def_nodes(g)

    def subst(x: ast.expr, at: int, d: int) -> ast.expr:
        class T(ast.NodeTransformer):
            def visit_Name(self, n: ast.Name) -> ast.AST:
                if isinstance(n.ctx, ast.Load) and n.id in defs and d > 0:
                    found = _reaching_node(g, at, n.id)
                    if found is not None and defs[n.id][found] is not None:
                        return subst(copy.deepcopy(defs[n.id][found]), found, d - 1)
                return n

            def visit_Lambda(self, n):
                return n

        return T().visit(x)

    return subst(copy.deepcopy(e), node.id, depth)


def _reaching_node(g: CFG, at: int, name: str) -> int | None:
    defs = _def_nodes(g).get(name)
    if not defs:
        return None
    found: set[int] = set()
    seen: set[int] = set()
    stack = [p for p, _ in g.pred[at]]
    hit_entry = False
    while stack:
        n = stack.pop()
        if n in seen:
            continue
        seen.add(n)
        if n in defs:
            found.add(n)
            continue
        if n == g.entry:
            hit_entry = True
        stack.extend(p for p, _ in g.pred[n])
    return next(iter(found)) if len(found) == 1 and not hit_entry else None


def forms(fi: FuncInfo, node: Node, e: ast.expr | None) -> set[str]:
    """Anonymised texts of ``e`` at increasing depths of (flow-sensitive) temporary expansion: a rule pattern may match any."""
    if e is None:
        return set()
    out = {anon_text(e, fi.node)}
    for d in (1, 2, 3, 4):
        out.add(anon_text(expand_at(fi, node, e, d), fi.node))
    return out


def control_deps(fi: FuncInfo, target: ast.AST | Node) -> list[tuple[str, bool, Node]]:
    """(anonymised test text, polarity, test node) for every atomic test the statement / node is control dependent on
    (exact: removing that out-edge of the test makes the node unreachable).  Each test is listed once per expansion form."""
    g = build_cfg(fi.node)
    n = target if isinstance(target, Node) else node_containing(g, target)
    out: list[tuple[str, bool, Node]] = []
    if n is None:
        return out
    for t in g.nodes:
        if t.kind != "test" or t.ast is None:
            continue
        for pol in (True, False):
            if g.only_if(n.id, t.id, pol):
                for txt in sorted(forms(fi, t, t.ast)):
                    out.append((txt, pol, t))
    return out


def dep_texts(fi: FuncInfo, target: ast.AST | Node, polarity: bool | None = None) -> set[str]:
    return {t for t, pol, _ in control_deps(fi, target) if polarity is None or pol == polarity}


def tests_like(fi: FuncInfo, *patterns: str) -> list[Node]:
    """Atomic tests one of whose expansion forms equals one of the (``A``-normalised) patterns."""
    g = build_cfg(fi.node)
    want = {A(p) for p in patterns}
    return [t for t in g.nodes if t.kind == "test" and t.ast is not None and forms(fi, t, t.ast) & want]


def alternatives(fn: ast.AST, e: ast.expr | None) -> list[ast.expr]:
    """Leaves of a value expression: temporaries expanded, ``a or b`` and ``x if c else y`` split into their operands."""
    out: list[ast.expr] = []
    for v in expand_all(fn, e):
        if isinstance(v, ast.BoolOp) and isinstance(v.op, ast.Or):
            for sub in v.values:
                out += alternatives(fn, sub)
        elif isinstance(v, ast.IfExp):
            out += alternatives(fn, v.body) + alternatives(fn, v.orelse)
        else:
            out.append(v)
    return out


def family(repo, fi: FuncInfo, depth: int = 3) -> list[FuncInfo]:
    """``fi`` plus the helpers of its class / module it still calls - underscore-private ones and functions that do not exist
    on the pinned tree (products of "extract method") - i.e. those the inliner could not splice (a multi-return helper used inside
    a comprehension or a boolean expression), transitively."""
    out = [fi]
    seen = {fi.qual}
    frontier = [fi]
    for _ in range(depth):
        nxt: list[FuncInfo] = []
        for f in frontier:
            for c in calls_in(f.node):
                name = call_name_of(c)
                if not name or name.startswith("__"):
                    continue
                h = None
                if isinstance(c.func, ast.Attribute) and isinstance(c.func.value, ast.Name) and c.func.value.id in ("self", "cls") and f.cls is not None:
                    h = f.cls.find_method(name)
                elif isinstance(c.func, ast.Name):
                    h = repo.functions.get(f"{f.module.name}:{name}")
                if h is not None and not name.startswith("_"):
                    from .inline import known_functions

                    if h.qual in known_functions():
                        h = None  # a function of the pinned tree is not an implementation detail of its caller
                if h is not None and h.qual not in seen:
                    seen.add(h.qual)
                    out.append(h)
                    nxt.append(h)
        frontier = nxt
    return out


def reaching_defs(g: CFG, at: int, name: str, blocked_edges: set | None = None) -> tuple[list[int], bool]:
    """(definition nodes of ``name`` that reach node ``at``, whether the function entry also reaches it undefined).
    ``blocked_edges``: (from, to, label) edges that are to be ignored (a partial evaluation's decided branches)."""
    defs = _def_nodes(g).get(name)
    if not defs:
        return [], True
    be = blocked_edges or set()
    found: list[int] = []
    seen: set[int] = set()
    stack = [p for p, lab in g.pred[at] if (p, at, lab) not in be]
    hit_entry = False
    while stack:
        n = stack.pop()
        if n in seen:
            continue
        seen.add(n)
        if n in defs:
            if n not in found:
                found.append(n)
            continue
        if n == g.entry:
            hit_entry = True
        stack.extend(p for p, lab in g.pred[n] if (p, n, lab) not in be)
    return sorted(found), hit_entry


def flows(fi: FuncInfo, at: Node, e: ast.expr | None, depth: int = 6) -> list[tuple[ast.expr, list[Node]]]:
    """Leaves of the value of ``e`` at CFG node ``at``: (leaf expression, CFG nodes the value passed through - the
    definition sites, innermost last).  Locals are followed through all their reaching plain assignments; ``a or b``
    and ``x if c else y`` are split.  The conditions under which a leaf flows are the control dependences of the
    returned nodes (plus those of ``at``)."""
    if e is None:
        return []
    g = build_cfg(fi.node)
    if isinstance(e, ast.IfExp):
        return flows(fi, at, e.body, depth) + flows(fi, at, e.orelse, depth)
    if isinstance(e, ast.BoolOp) and isinstance(e.op, ast.Or):
        out: list[tuple[ast.expr, list[Node]]] = []
        for v in e.values:
            out += flows(fi, at, v, depth)
        return out
    if isinstance(e, ast.Subscript) and isinstance(e.slice, ast.Slice) and e.slice.step is None and depth > 0 and all(
            b is None or (isinstance(b, ast.Constant) and isinstance(b.value, int)) for b in (e.slice.lower, e.slice.upper)):
        # pair[:2] where pair = (a, b, c): the sub-tuple display
        out = []
        lo = e.slice.lower.value if e.slice.lower is not None else None
        hi = e.slice.upper.value if e.slice.upper is not None else None
        for leaf, chain in flows(fi, at, e.value, depth - 1):
            if isinstance(leaf, (ast.Tuple, ast.List)) and not any(isinstance(x, ast.Starred) for x in leaf.elts):
                sub = ast.copy_location(ast.Tuple(elts=leaf.elts[lo:hi], ctx=ast.Load()), e)
                sub._xsa_at = chain[-1] if chain else at  # type: ignore[attr-defined]
                out.append((sub, chain))
            else:
                out.append((ast.copy_location(ast.Subscript(value=leaf, slice=e.slice, ctx=ast.Load()), e), chain))
        return out
    if isinstance(e, ast.Subscript) and isinstance(e.slice, ast.Constant) and isinstance(e.slice.value, int) and depth > 0:
        # element of a tuple / list display that flows here: pair[0] where pair = (a, b)
        out = []
        for leaf, chain in flows(fi, at, e.value, depth - 1):
            if isinstance(leaf, (ast.Tuple, ast.List)) and -len(leaf.elts) <= e.slice.value < len(leaf.elts) and not any(isinstance(x, ast.Starred) for x in leaf.elts):
                where = chain[-1] if chain else at
                for l2, c2 in flows(fi, where, leaf.elts[e.slice.value], depth - 1):
                    out.append((l2, [*chain, *c2]))
            else:
                out.append((ast.copy_location(ast.Subscript(value=leaf, slice=e.slice, ctx=ast.Load()), e), chain))
        return out
    if isinstance(e, ast.Name) and isinstance(e.ctx, ast.Load) and depth > 0:
        found, hit_entry = reaching_defs(g, at.id, e.id)
        table = _def_nodes(g).get(e.id, {})
        is_param = isinstance(fi.node, (ast.FunctionDef, ast.AsyncFunctionDef)) and e.id in {a.arg for a in [*fi.node.args.posonlyargs, *fi.node.args.args, *fi.node.args.kwonlyargs]}
        if found and (not hit_entry or is_param) and all(table[d] is not None for d in found):
            out = []
            for d in found:
                v = table[d]
                if d == at.id:
                    continue  # a definition that only reaches itself around a loop
                for leaf, chain in flows(fi, g.nodes[d], v, depth - 1):
                    out.append((leaf, [g.nodes[d], *chain]))
            if hit_entry and is_param:
                out.append((e, []))  # the parameter's own (caller supplied) value also reaches this use
            if out:
                return out
    return [(e, [])]


def flow_conditions(fi: FuncInfo, at: Node, chain: list[Node]) -> set[tuple[str, bool]]:
    """Union of the control dependences (text form, polarity) of the use site and of every definition site of a flow."""
    out: set[tuple[str, bool]] = set()
    for n in [at, *chain]:
        for txt, pol, _ in control_deps(fi, n):
            out.add((txt, pol))
    return out


def str_template(e: ast.expr) -> list[tuple[str, object]] | None:
    """A string-building expression as literal parts and holes: [("lit", "from "), ("hole", <expr>), ...]; None if not a template."""
    if isinstance(e, ast.Constant) and isinstance(e.value, str):
        return [("lit", e.value)]
    if isinstance(e, ast.JoinedStr):
        out: list[tuple[str, object]] = []
        for v in e.values:
            if isinstance(v, ast.Constant):
                out.append(("lit", v.value))
            elif isinstance(v, ast.FormattedValue):
                out.append(("hole", v.value))
        return out
    if isinstance(e, ast.Call) and isinstance(e.func, ast.Attribute) and e.func.attr == "format" and isinstance(e.func.value, ast.Constant) and isinstance(e.func.value.value, str):
        import re as _re

        parts = _re.split(r"(\{(?:\d*|[a-zA-Z_]\w*)(?:![rsa])?(?::[^{}]*)?\})", e.func.value.value)
        out = []
        auto = 0
        for p in parts:
            if not p:
                continue
            if p.startswith("{") and p.endswith("}") and "{{" not in p:
                key = p[1:-1].split(":", 1)[0].split("!", 1)[0]
                if key == "":
                    arg = e.args[auto] if auto < len(e.args) else None
                    auto += 1
                elif key.isdigit():
                    arg = e.args[int(key)] if int(key) < len(e.args) else None
                else:
                    arg = next((k.value for k in e.keywords if k.arg == key), None)
                if arg is None:
                    return None
                out.append(("hole", arg))
            else:
                out.append(("lit", p.replace("{{", "{").replace("}}", "}")))
        return out
    if isinstance(e, ast.BinOp) and isinstance(e.op, ast.Add):
        l, r = str_template(e.left), str_template(e.right)
        if l is not None and r is not None:
            return l + r
        if l is not None:
            return l + [("hole", e.right)]
        if r is not None:
            return [("hole", e.left)] + r
        return [("hole", e.left), ("hole", e.right)]
    if isinstance(e, ast.BinOp) and isinstance(e.op, ast.Mod) and isinstance(e.left, ast.Constant) and isinstance(e.left.value, str):
        args = list(e.right.elts) if isinstance(e.right, ast.Tuple) else [e.right]
        parts = e.left.value.split("%s")
        if len(parts) == len(args) + 1:
            out = []
            for i, p in enumerate(parts):
                if p:
                    out.append(("lit", p))
                if i < len(args):
                    out.append(("hole", args[i]))
            return out
    return None


def template_text(t: list[tuple[str, object]]) -> str:
    """Literal skeleton of a template with holes written as {}."""
    return "".join(v if k == "lit" else "{}" for k, v in t)  # type: ignore[misc]


def entry_conditions(fi: FuncInfo, target: ast.AST | Node) -> list[tuple[str, bool, Node]]:
    """The branch edges that lead directly into the node's block: (test text form, outcome, test node) for every atomic test
    from which the node is reached without passing another test.  For ``if a or b: X`` these are (a, True) and (b, True) - the
    alternatives, none of which is a *necessary* condition in the sense of ``control_deps``."""
    g = build_cfg(fi.node)
    n = target if isinstance(target, Node) else g.node_of(target)
    out: list[tuple[str, bool, Node]] = []
    if n is None:
        return out
    seen: set[int] = set()
    stack = [n.id]
    while stack:
        cur = stack.pop()
        if cur in seen:
            continue
        seen.add(cur)
        for p, lab in g.pred[cur]:
            pn = g.nodes[p]
            if pn.kind == "test" and lab in ("true", "false"):
                for txt in sorted(forms(fi, pn, pn.ast)):
                    out.append((txt, lab == "true", pn))
            elif pn.kind not in ("test",) and lab != "exc":
                stack.append(p)
    return out


def func_text(fi: FuncInfo, call: ast.Call) -> str:
    """Source text of the called expression with alias temporaries looked through (``f = self.factory; f(x)`` -> ``self.factory``)."""
    return ast.unparse(expand(fi.node, call.func))


def calls_named(fi: FuncInfo, *texts: str) -> list[ast.Call]:
    """Calls of the function whose (alias-expanded) callee text is one of ``texts``."""
    want = set(texts)
    return [c for c in calls_in(fi.node) if func_text(fi, c) in want]


def leaves_at(fi: FuncInfo, where: ast.AST | Node, e: ast.expr | None) -> list[ast.expr]:
    """Flow leaves of ``e`` evaluated at the CFG node that owns ``where`` (see ``flows``)."""
    g = build_cfg(fi.node)
    n = where if isinstance(where, Node) else node_containing(g, where)
    if n is None or e is None:
        return [] if e is None else [e]
    return [leaf for leaf, _ in flows(fi, n, e)]


def arg_forms(fi: FuncInfo, call: ast.Call, e: ast.expr | None) -> set[str]:
    """Expansion forms (anonymised) of an argument expression of ``call``."""
    g = build_cfg(fi.node)
    n = node_containing(g, call)
    if e is None:
        return set()
    return forms(fi, n, e) if n is not None else {anon_text(e, fi.node)}


def raw_forms(fi: FuncInfo, where: ast.AST | Node, e: ast.expr | None) -> set[str]:
    """Like ``forms`` but NOT anonymised: source text of ``e`` at increasing depths of temporary expansion."""
    g = build_cfg(fi.node)
    n = where if isinstance(where, Node) else node_containing(g, where)
    if e is None:
        return set()
    out = {ast.unparse(e)}
    if n is not None:
        for d in (1, 2, 3, 4):
            out.add(ast.unparse(expand_at(fi, n, e, d)))
    return out


def test_subject(t: Node) -> ast.expr | None:
    """The expression whose truthiness an atomic test decides: the test itself, or the target of ``(x := e)``."""
    e = t.ast
    if isinstance(e, ast.NamedExpr):
        return e.target
    return e if isinstance(e, ast.expr) else None


def truthy_guard(fi: FuncInfo, target: ast.AST | Node, value: ast.expr) -> bool:
    """``target`` runs only when ``value`` (a local, or any expression) was tested truthy: it is control dependent (True) on a test
    whose subject is that very local / has the same text, or whose walrus binds it."""
    g = build_cfg(fi.node)
    n = target if isinstance(target, Node) else g.node_of(target)
    if n is None:
        return False
    want = ast.unparse(value)
    for t in g.nodes:
        if t.kind != "test" or t.ast is None:
            continue
        subj = test_subject(t)
        if subj is not None and ast.unparse(subj) == want and g.only_if(n.id, t.id, True):
            return True
    return False


def none_cond(conds, want_none: bool = True) -> bool:
    """Among (text, polarity) conditions: some test establishes that a value IS None (``x is None`` true / ``x is not None`` false),
    or - with ``want_none=False`` - that it is not."""
    for item in conds:
        t, pol = item[0], item[1]
        if t.endswith("isNone") and pol == want_none:
            return True
        if t.endswith("isnotNone") and pol != want_none:
            return True
    return False


def enumerate_paths(g: CFG, src: int, dst: int, limit: int = 400) -> list[list[tuple[int, str]]]:
    """Simple paths (no node repeated) from ``src`` to ``dst`` as lists of (node id, label of the edge taken out of it); exceptional
    edges are not followed.  Empty list if there are more than ``limit`` (callers must treat that as "cannot decide")."""
    out: list[list[tuple[int, str]]] = []
    stack: list[tuple[int, list[tuple[int, str]], frozenset[int]]] = [(src, [], frozenset([src]))]
    while stack:
        n, path, seen = stack.pop()
        if n == dst:
            out.append(path)
            if len(out) > limit:
                return []
            continue
        for m, lab in g.succ[n]:
            if lab == "exc" or m in seen:
                continue
            stack.append((m, [*path, (n, lab)], seen | {m}))
    return out


def path_conditions(fi: FuncInfo, target: ast.AST | Node, start: Node | None = None) -> list[list[tuple[set[str], bool, Node]]]:
    """For every simple path from the function entry (or ``start``) to the node: the atomic tests decided on it, each with the
    text forms of the test *as evaluated on that path* (locals replaced by their most recent plain assignment on the path) and
    the outcome taken.  Path sensitive: `c = a` on one arm and `c = b` on the other give different forms for a later test on c."""
    g = build_cfg(fi.node)
    n = target if isinstance(target, Node) else g.node_of(target)
    if n is None:
        return []
    import copy

    out = []
    for path in enumerate_paths(g, (start or g.nodes[g.entry]).id, n.id):
        env: dict[str, ast.expr | None] = {}
        conds: list[tuple[set[str], bool, Node]] = []

        def subst(e: ast.expr, depth: int = 4) -> ast.expr:
            class T(ast.NodeTransformer):
                def visit_Name(self, x: ast.Name):
                    if isinstance(x.ctx, ast.Load) and env.get(x.id) is not None and depth > 0:
                        return copy.deepcopy(env[x.id])
                    return x

                def visit_Lambda(self, x):
                    return x

            return T().visit(copy.deepcopy(e))

        for nid, lab in path:
            node = g.nodes[nid]
            st = node.ast
            if node.kind == "test" and st is not None:
                for x in ast.walk(st):
                    if isinstance(x, ast.NamedExpr) and isinstance(x.target, ast.Name):
                        env[x.target.id] = subst(x.value)
                if lab in ("true", "false"):
                    conds.append(({anon_text(st, fi.node), anon_text(subst(st), fi.node)}, lab == "true", node))
            elif node.kind == "stmt" and isinstance(st, (ast.Assign, ast.AnnAssign)) and st.value is not None:
                tgts = st.targets if isinstance(st, ast.Assign) else [st.target]
                for t in tgts:
                    if isinstance(t, ast.Name):
                        env[t.id] = subst(st.value)
                    else:
                        for x in ast.walk(t):
                            if isinstance(x, ast.Name) and isinstance(x.ctx, ast.Store):
                                env[x.id] = None
            elif node.kind == "stmt" and isinstance(st, ast.AugAssign) and isinstance(st.target, ast.Name):
                env[st.target.id] = None
            elif node.kind == "for" and st is not None:
                for x in ast.walk(st.target):
                    if isinstance(x, ast.Name):
                        env[x.id] = None
        out.append(conds)
    return out


def node_containing(g: CFG, where: ast.AST) -> Node | None:
    """CFG node that owns ``where``: the registered owner, else the statement / test node whose syntax tree contains it."""
    n = g.node_of(where)
    if n is not None:
        return n
    for cand in g.nodes:
        if cand.ast is None:
            continue
        roots = [cand.ast] if cand.kind == "test" else header_exprs_of(cand)
        for r in roots:
            for x in ast.walk(r):
                if x is where:
                    return cand
    return None


def atomic_conditions(fn: ast.AST) -> list[ast.expr]:
    """Every atomic condition of a function: the CFG's test nodes plus the (and / or / not flattened) filters of its comprehensions
    and generator expressions, and the tests of conditional expressions that are not in statement position."""
    g = build_cfg(fn)
    out: list[ast.expr] = [t.ast for t in g.nodes if t.kind == "test" and t.ast is not None]

    def flat(e: ast.expr) -> list[ast.expr]:
        if isinstance(e, ast.BoolOp):
            return [x for v in e.values for x in flat(v)]
        if isinstance(e, ast.UnaryOp) and isinstance(e.op, ast.Not):
            return flat(e.operand)
        return [e]

    for n in walk_no_nested(fn):
        if isinstance(n, ast.comprehension):
            for c in n.ifs:
                out += flat(c)
        elif isinstance(n, ast.IfExp):
            out += flat(n.test)
    return out


def subject(fn: ast.AST, text: str):
    """Predicate for Dispatch: the expression is ``text`` itself or a local that is a plain alias of it (``use = self.use``)."""
    aliases = {k for k, v in single_defs(fn).items() if ast.unparse(v) == text}
    return lambda e: ast.unparse(e) == text or (isinstance(e, ast.Name) and e.id in aliases)
