"""Small syntactic query helpers shared by the rules."""

from __future__ import annotations

import ast
from typing import Iterable, Iterator

from .cfg import CFG, Node, build_cfg, call_name, calls_in, node_calls
from .model import FuncInfo, anon_text, dotted_name, walk_no_nested

MUTATORS = {
    "append", "extend", "insert", "pop", "remove", "clear", "update", "setdefault", "add", "discard",
    "sort", "reverse", "popitem", "appendleft", "popleft", "__setitem__", "__delitem__",
}


def is_self_attr(node: ast.AST, attr: str | None = None, recv: Iterable[str] = ("self",)) -> bool:
    return (
        isinstance(node, ast.Attribute)
        and isinstance(node.value, ast.Name)
        and node.value.id in recv
        and (attr is None or node.attr == attr)
    )


def self_calls(fn: ast.AST, name: str | None = None) -> list[ast.Call]:
    """Calls of the form self.<name>(...) / cls.<name>(...) in fn (no nested defs)."""
    out = []
    for c in calls_in(fn):
        if isinstance(c.func, ast.Attribute) and is_self_attr(c.func, name, ("self", "cls")):
            out.append(c)
    return out


def attr_method_calls(fn: ast.AST, attr: str, meth: str | None = None) -> list[ast.Call]:
    """Calls self.<attr>.<meth>(...)."""
    out = []
    for c in calls_in(fn):
        f = c.func
        if isinstance(f, ast.Attribute) and is_self_attr(f.value, attr) and (meth is None or f.attr == meth):
            out.append(c)
    return out


def stores(fn: ast.AST) -> Iterator[tuple[ast.stmt, ast.expr, ast.expr | None]]:
    """(statement, target, value) for every assignment-like store in fn (no nested defs)."""
    for n in [fn, *walk_no_nested(fn)]:
        if isinstance(n, ast.Assign):
            for t in n.targets:
                for tt in _flatten_targets(t):
                    yield n, tt, n.value
        elif isinstance(n, ast.AnnAssign):
            if n.value is not None or True:
                yield n, n.target, n.value
        elif isinstance(n, ast.AugAssign):
            yield n, n.target, n.value
        elif isinstance(n, ast.Delete):
            for t in n.targets:
                yield n, t, None
        elif isinstance(n, (ast.For, ast.AsyncFor)):
            for tt in _flatten_targets(n.target):
                yield n, tt, None
        elif isinstance(n, ast.NamedExpr):
            yield n, n.target, n.value  # type: ignore[misc]


def _flatten_targets(t: ast.expr) -> Iterator[ast.expr]:
    if isinstance(t, (ast.Tuple, ast.List)):
        for e in t.elts:
            yield from _flatten_targets(e)
    elif isinstance(t, ast.Starred):
        yield from _flatten_targets(t.value)
    else:
        yield t


def self_attr_stores(fn: ast.AST, attr: str | None = None) -> list[tuple[ast.stmt, ast.Attribute, ast.expr | None]]:
    out = []
    for st, tgt, val in stores(fn):
        if is_self_attr(tgt, attr):
            out.append((st, tgt, val))
    return out


def names_in(node: ast.AST) -> set[str]:
    return {n.id for n in ast.walk(node) if isinstance(n, ast.Name)}


def assigned_names(node: ast.AST) -> set[str]:
    out: set[str] = set()
    for n in ast.walk(node):
        if isinstance(n, ast.Name) and isinstance(n.ctx, (ast.Store, ast.Del)):
            out.add(n.id)
    return out


def root_name(node: ast.AST) -> str | None:
    """x.a.b[c].d -> 'x'."""
    while isinstance(node, (ast.Attribute, ast.Subscript, ast.Call)):
        node = node.value if not isinstance(node, ast.Call) else node.func
    return node.id if isinstance(node, ast.Name) else None


def kwarg(call: ast.Call, name: str) -> ast.expr | None:
    for k in call.keywords:
        if k.arg == name:
            return k.value
    return None


def arg_or_kw(call: ast.Call, pos: int, name: str) -> ast.expr | None:
    """Effective argument for a parameter given positionally at ``pos`` or by keyword."""
    k = kwarg(call, name)
    if k is not None:
        return k
    if pos < len(call.args) and not any(isinstance(a, ast.Starred) for a in call.args[: pos + 1]):
        return call.args[pos]
    return None


def bound_arg(call: ast.Call, callee: FuncInfo, param: str) -> ast.expr | None:
    """Argument expression bound to ``param`` of ``callee`` at this call (None = default / unknown)."""
    k = kwarg(call, param)
    if k is not None:
        return k
    pos = [a.arg for a in callee.pos_params]
    if callee.cls is not None and not callee.is_staticmethod and pos and pos[0] in ("self", "cls"):
        pos = pos[1:]
    if param in pos:
        return arg_or_kw(call, pos.index(param), param)
    return None


def unparse(node: ast.AST | None) -> str:
    return "" if node is None else ast.unparse(node)


def cfg_nodes_calling(g: CFG, pred) -> list[Node]:
    out = []
    for n in g.stmts():
        if any(pred(c) for c in node_calls(n)):
            out.append(n)
    return out


def is_call_to_self(c: ast.Call, name: str) -> bool:
    return isinstance(c.func, ast.Attribute) and is_self_attr(c.func, name, ("self", "cls"))


def find_tests_mentioning(g: CFG, text: str) -> list[Node]:
    """Atomic test nodes whose source text contains ``text`` (after unparse)."""
    return [n for n in g.nodes if n.kind == "test" and n.ast is not None and text in ast.unparse(n.ast)]


def enum_members(cls_node: ast.ClassDef) -> dict[str, ast.expr]:
    out: dict[str, ast.expr] = {}
    for st in cls_node.body:
        if isinstance(st, ast.Assign) and len(st.targets) == 1 and isinstance(st.targets[0], ast.Name):
            n = st.targets[0].id
            if not n.startswith("_"):
                out[n] = st.value
        elif isinstance(st, ast.AnnAssign) and isinstance(st.target, ast.Name) and st.value is not None:
            if not st.target.id.startswith("_"):
                out[st.target.id] = st.value
    return out


def self_attr_writes(fi: FuncInfo, _seen: set[str] | None = None) -> set[str]:
    """Attributes of ``self`` a method may write (stores, augmented stores, mutator calls), through self-calls."""
    seen = _seen if _seen is not None else set()
    if fi.qual in seen:
        return set()
    seen.add(fi.qual)
    out: set[str] = set()
    for st, tgt, _ in stores(fi.node):
        base = tgt
        while isinstance(base, ast.Subscript):
            base = base.value
        if is_self_attr(base):
            out.add(base.attr)
    for c in calls_in(fi.node):
        f = c.func
        if isinstance(f, ast.Attribute) and f.attr in MUTATORS and is_self_attr(f.value):
            out.add(f.value.attr)
        if isinstance(f, ast.Attribute) and is_self_attr(f, None, ("self",)) and fi.cls is not None:
            m = fi.cls.find_method(f.attr)
            if m is not None:
                out |= self_attr_writes(m, seen)
    return out


def asrc(fi: FuncInfo) -> str:
    """Anonymised source of a function: locals and parameters replaced by ``_``, no spaces, statements joined by ';'."""
    cached = getattr(fi.node, "_xsa_asrc", None)
    if cached is None:
        import copy

        node = copy.deepcopy(fi.node)
        # drop the docstring
        if node.body and isinstance(node.body[0], ast.Expr) and isinstance(node.body[0].value, ast.Constant) and isinstance(node.body[0].value.value, str):
            node.body = node.body[1:] or [ast.Pass()]
        cached = anon_text(node, fi.node)
        fi.node._xsa_asrc = cached  # type: ignore[attr-defined]
    return cached


def A(pattern: str) -> str:
    """Normalise a pattern the same way as asrc (spaces removed)."""
    return pattern.replace(" ", "")
