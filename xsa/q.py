"""Small syntactic query helpers shared by the rules."""

from __future__ import annotations

import ast
import re
from typing import Iterable, Iterator

from .cfg import CFG, Node, build_cfg, call_name, calls_in, node_calls
from .model import FuncInfo, anon_text, dotted_name, walk_no_nested

MUTATORS = {
    "append", "extend", "insert", "pop", "remove", "clear", "update", "setdefault", "add", "discard",
    "sort", "reverse", "popitem", "appendleft", "popleft", "__setitem__", "__delitem__",
}


def is_self_attr(node: ast.AST, attr: str | None = None, recv: Iterable[str] = ("self",)) -> bool:
    return (
        isinstance(node, ast.Attribute)
        and isinstance(node.value, ast.Name)
        and node.value.id in recv
        and (attr is None or node.attr == attr)
    )


def self_calls(fn: ast.AST, name: str | None = None) -> list[ast.Call]:
    """Calls of the form self.<name>(...) / cls.<name>(...) in fn (no nested defs)."""
    out = []
    for c in calls_in(fn):
        if isinstance(c.func, ast.Attribute) and is_self_attr(c.func, name, ("self", "cls")):
            out.append(c)
    return out


def attr_method_calls(fn: ast.AST, attr: str, meth: str | None = None) -> list[ast.Call]:
    """Calls self.<attr>.<meth>(...)."""
    out = []
    for c in calls_in(fn):
        f = c.func
        if isinstance(f, ast.Attribute) and is_self_attr(f.value, attr) and (meth is None or f.attr == meth):
            out.append(c)
    return out


def stores(fn: ast.AST) -> Iterator[tuple[ast.stmt, ast.expr, ast.expr | None]]:
    """(statement, target, value) for every assignment-like store in fn (no nested defs)."""
    for n in [fn, *walk_no_nested(fn)]:
        if isinstance(n, ast.Assign):
            for t in n.targets:
                for tt in _flatten_targets(t):
                    yield n, tt, n.value
        elif isinstance(n, ast.AnnAssign):
            if n.value is not None or True:
                yield n, n.target, n.value
        elif isinstance(n, ast.AugAssign):
            yield n, n.target, n.value
        elif isinstance(n, ast.Delete):
            for t in n.targets:
                yield n, t, None
        elif isinstance(n, (ast.For, ast.AsyncFor)):
            for tt in _flatten_targets(n.target):
                yield n, tt, None
        elif isinstance(n, ast.NamedExpr):
            yield n, n.target, n.value  # type: ignore[misc]


def _flatten_targets(t: ast.expr) -> Iterator[ast.expr]:
    if isinstance(t, (ast.Tuple, ast.List)):
        for e in t.elts:
            yield from _flatten_targets(e)
    elif isinstance(t, ast.Starred):
        yield from _flatten_targets(t.value)
    else:
        yield t


def self_attr_stores(fn: ast.AST, attr: str | None = None) -> list[tuple[ast.stmt, ast.Attribute, ast.expr | None]]:
    out = []
    for st, tgt, val in stores(fn):
        if is_self_attr(tgt, attr):
            out.append((st, tgt, val))
    return out


def names_in(node: ast.AST) -> set[str]:
    return {n.id for n in ast.walk(node) if isinstance(n, ast.Name)}


def assigned_names(node: ast.AST) -> set[str]:
    out: set[str] = set()
    for n in ast.walk(node):
        if isinstance(n, ast.Name) and isinstance(n.ctx, (ast.Store, ast.Del)):
            out.add(n.id)
    return out


def root_name(node: ast.AST) -> str | None:
    """x.a.b[c].d -> 'x'."""
    while isinstance(node, (ast.Attribute, ast.Subscript, ast.Call)):
        node = node.value if not isinstance(node, ast.Call) else node.func
    return node.id if isinstance(node, ast.Name) else None


def kwarg(call: ast.Call, name: str) -> ast.expr | None:
    for k in call.keywords:
        if k.arg == name:
            return k.value
    return None


def arg_or_kw(call: ast.Call, pos: int, name: str) -> ast.expr | None:
    """Effective argument for a parameter given positionally at ``pos`` or by keyword."""
    k = kwarg(call, name)
    if k is not None:
        return k
    if pos < len(call.args) and not any(isinstance(a, ast.Starred) for a in call.args[: pos + 1]):
        return call.args[pos]
    return None


def bound_arg(call: ast.Call, callee: FuncInfo, param: str) -> ast.expr | None:
    """Argument expression bound to ``param`` of ``callee`` at this call (None = default / unknown)."""
    k = kwarg(call, param)
    if k is not None:
        return k
    pos = [a.arg for a in callee.pos_params]
    if callee.cls is not None and not callee.is_staticmethod and pos and pos[0] in ("self", "cls"):
        pos = pos[1:]
    if param in pos:
        return arg_or_kw(call, pos.index(param), param)
    return None


def unparse(node: ast.AST | None) -> str:
    return "" if node is None else ast.unparse(node)


def cfg_nodes_calling(g: CFG, pred) -> list[Node]:
    out = []
    for n in g.stmts():
        if any(pred(c) for c in node_calls(n)):
            out.append(n)
    return out


def is_call_to_self(c: ast.Call, name: str) -> bool:
    return isinstance(c.func, ast.Attribute) and is_self_attr(c.func, name, ("self", "cls"))


def find_tests_mentioning(g: CFG, text: str) -> list[Node]:
    """Atomic test nodes whose source text contains ``text`` (after unparse)."""
    return [n for n in g.nodes if n.kind == "test" and n.ast is not None and text in ast.unparse(n.ast)]


def enum_members(cls_node: ast.ClassDef) -> dict[str, ast.expr]:
    out: dict[str, ast.expr] = {}
    for st in cls_node.body:
        if isinstance(st, ast.Assign) and len(st.targets) == 1 and isinstance(st.targets[0], ast.Name):
            n = st.targets[0].id
            if not n.startswith("_"):
                out[n] = st.value
        elif isinstance(st, ast.AnnAssign) and isinstance(st.target, ast.Name) and st.value is not None:
            if not st.target.id.startswith("_"):
                out[st.target.id] = st.value
    return out


def self_attr_writes(fi: FuncInfo, _seen: set[str] | None = None) -> set[str]:
    """Attributes of ``self`` a method may write (stores, augmented stores, mutator calls), through self-calls."""
    seen = _seen if _seen is not None else set()
    if fi.qual in seen:
        return set()
    seen.add(fi.qual)
    out: set[str] = set()
    for st, tgt, _ in stores(fi.node):
        base = tgt
        while isinstance(base, ast.Subscript):
            base = base.value
        if is_self_attr(base):
            out.add(base.attr)
    for c in calls_in(fi.node):
        f = c.func
        if isinstance(f, ast.Attribute) and f.attr in MUTATORS and is_self_attr(f.value):
            out.add(f.value.attr)
        if isinstance(f, ast.Attribute) and is_self_attr(f, None, ("self",)) and fi.cls is not None:
            m = fi.cls.find_method(f.attr)
            if m is not None:
                out |= self_attr_writes(m, seen)
    return out


def asrc(fi: FuncInfo) -> str:
    """Anonymised source of a function: locals and parameters replaced by ``_``, no spaces, statements joined by ';'."""
    cached = getattr(fi.node, "_xsa_asrc", None)
    if cached is None:
        import copy

        node = copy.deepcopy(fi.node)
        # drop the docstring
        if node.body and isinstance(node.body[0], ast.Expr) and isinstance(node.body[0].value, ast.Constant) and isinstance(node.body[0].value.value, str):
            node.body = node.body[1:] or [ast.Pass()]
        cached = anon_text(node, fi.node)
        fi.node._xsa_asrc = cached  # type: ignore[attr-defined]
    return cached


def A(pattern: str) -> str:
    """Normalise a pattern the same way as asrc (spaces removed)."""
    return pattern.replace(" ", "")


def L(fi: FuncInfo, node: ast.AST | None) -> str:
    """Anonymised text of an expression of ``fi``: locals and parameters read as ``_``, spaces removed.

    Rules compare against this (with ``A("...")``) instead of raw source text, so that renaming a local never
    changes a verdict."""
    return "" if node is None else anon_text(node, fi.node)


def key_test(test: ast.AST, is_subject) -> tuple[frozenset[str], bool] | None:
    """An atomic test that compares the dispatch subject with constant keys.

    Returns (keys, positive): the test is true iff subject in keys (positive) / not in keys (not positive)."""
    if not isinstance(test, ast.Compare) or len(test.ops) != 1:
        return None
    left, op, right = test.left, test.ops[0], test.comparators[0]
    if isinstance(op, (ast.Eq, ast.Is, ast.NotEq, ast.IsNot)):
        if is_subject(left):
            other = right
        elif is_subject(right):
            other = left
        else:
            return None
        return frozenset([ast.unparse(other)]), isinstance(op, (ast.Eq, ast.Is))
    if isinstance(op, (ast.In, ast.NotIn)) and is_subject(left) and isinstance(right, (ast.Tuple, ast.List, ast.Set)):
        return frozenset(ast.unparse(e) for e in right.elts), isinstance(op, ast.In)
    return None


class Dispatch:
    """Partial evaluation of a function over one dispatch subject (``x == K`` / ``x is K`` / ``x in (K1, K2)`` tests).

    ``under(K)`` = CFG nodes reachable when the subject equals K; ``under(None)`` = when it equals none of the keys
    the function mentions.  Independent of if/elif orientation, nesting, early returns and branch order."""

    def __init__(self, fn: ast.AST, is_subject=None, classify=None, extra=None) -> None:
        self.g = build_cfg(fn)
        self.is_subject = is_subject
        self.classify = classify
        self.extra = extra  # optional: fixed outcome (True / False) for tests that are not key tests
        self.tests: dict[int, tuple[frozenset[str], bool]] = {}
        for n in self.g.nodes:
            if n.kind == "test" and n.ast is not None:
                kt = classify(n.ast) if classify is not None else key_test(n.ast, is_subject)
                if kt is not None:
                    self.tests[n.id] = kt
        self.keys: set[str] = set().union(*[k for k, _ in self.tests.values()]) if self.tests else set()
        for x in walk_no_nested(fn):
            if isinstance(x, ast.Compare):
                kt = classify(x) if classify is not None else (key_test(x, is_subject) if is_subject is not None else None)
                if kt is not None:
                    self.keys |= set(kt[0])

    def under(self, key: str | None) -> list[Node]:
        def decide(n: Node) -> bool | None:
            kt = self.tests.get(n.id)
            if kt is None:
                if isinstance(n.ast, ast.Name):
                    v = self._named_condition(key, n)
                    if v is not None:
                        return v
                return self.extra(n.ast) if self.extra is not None and n.ast is not None else None
            keys, positive = kt
            return (key in keys) == positive

        ids = self.g.reach_assuming(decide)
        return [n for n in self.g.nodes if n.id in ids]

    def only_if_under(self, key: str | None, target: int, test_node: int, polarity: bool) -> bool:
        """Control dependence relative to the assumption subject == key: with the key's decided edges removed, is ``target`` reached
        only through the ``polarity`` outcome of ``test_node``?"""
        def decide(n: Node) -> bool | None:
            kt = self.tests.get(n.id)
            if kt is None:
                if isinstance(n.ast, ast.Name):
                    v = self._named_condition(key, n)
                    if v is not None:
                        return v
                return self.extra(n.ast) if self.extra is not None and n.ast is not None else None
            return (key in kt[0]) == kt[1]

        be = []
        for n in self.g.nodes:
            if n.kind != "test":
                continue
            dd = decide(n)
            if dd is not None:
                drop = "false" if dd else "true"
                be += [(n.id, m, l) for m, l in self.g.succ[n.id] if l == drop]
        lab = "true" if polarity else "false"
        cut = [(test_node, m, l) for m, l in self.g.succ[test_node] if l == lab]
        if not cut:
            return False
        return target in self.g.reachable([self.g.entry], blocked_edges=be) and target not in self.g.reachable([self.g.entry], blocked_edges=be + cut)

    def _named_condition(self, key: str | None, t: Node) -> bool | None:
        """Outcome of a test on a named boolean (``is_fixed = default == X.FIXED`` ... ``if is_fixed:``) under ``key``: decided when
        every definition that reaches the test is a pure combination of key tests with the same truth value."""
        found, hit_entry = reaching_defs(self.g, t.id, t.ast.id)
        table = _def_nodes(self.g).get(t.ast.id, {})
        if not found or hit_entry:
            return None

        def pure(e: ast.expr) -> bool | None:
            if isinstance(e, ast.UnaryOp) and isinstance(e.op, ast.Not):
                v = pure(e.operand)
                return None if v is None else not v
            if isinstance(e, ast.BoolOp):
                vals = [pure(x) for x in e.values]
                if isinstance(e.op, ast.Or):
                    return True if any(v is True for v in vals) else (False if all(v is False for v in vals) else None)
                return False if any(v is False for v in vals) else (True if all(v is True for v in vals) else None)
            kt = self.classify(e) if self.classify is not None else (key_test(e, self.is_subject) if self.is_subject is not None and isinstance(e, ast.Compare) else None)
            if kt is not None:
                return (key in kt[0]) == kt[1]
            return None

        vals = {pure(table[d]) if table[d] is not None else None for d in found}
        return vals.pop() if len(vals) == 1 else None

    # ---- expression-level partial evaluation (conditions kept in named booleans / conditional expressions)
    def truth_under(self, fi: FuncInfo, key: str | None, at: Node, e: ast.expr, depth: int = 5, unknown: bool | None = None) -> bool | None:
        """Truth of a condition when the subject equals ``key`` (None = undetermined).  ``unknown``: the value to assume for atomic
        conditions that do not depend on the subject (e.g. False = "none of the side conditions holds")."""
        if depth <= 0:
            return unknown
        if isinstance(e, ast.Constant):
            return bool(e.value)
        if isinstance(e, ast.Call) and isinstance(e.func, ast.Name) and e.func.id == "bool" and len(e.args) == 1:
            return self.truth_under(fi, key, at, e.args[0], depth - 1, unknown)
        if isinstance(e, ast.UnaryOp) and isinstance(e.op, ast.Not):
            v = self.truth_under(fi, key, at, e.operand, depth - 1, unknown)
            return None if v is None else not v
        if isinstance(e, ast.BoolOp):
            vals = [self.truth_under(fi, key, at, x, depth - 1, unknown) for x in e.values]
            if isinstance(e.op, ast.Or):
                return True if any(v is True for v in vals) else (False if all(v is False for v in vals) else None)
            return False if any(v is False for v in vals) else (True if all(v is True for v in vals) else None)
        if isinstance(e, ast.Compare):
            kt = self.classify(e) if self.classify is not None else key_test(e, self.is_subject)
            if kt is not None:
                keys, positive = kt
                return (key in keys) == positive
            return unknown
        if isinstance(e, ast.Name):
            ds = self._defs_under(fi, key, at, e)
            if not ds:
                return unknown
            vals = {self.truth_under(fi, key, d, v, depth - 1, unknown) for v, d in ds}
            return vals.pop() if len(vals) == 1 else None
        return unknown

    def blocked_under(self, key: str | None) -> set:
        """The out-edges that cannot be taken when the subject equals ``key``."""
        cache = self.__dict__.setdefault("_blocked", {})
        if key not in cache:
            be = set()
            for n in self.g.nodes:
                if n.kind != "test":
                    continue
                kt = self.tests.get(n.id)
                if kt is not None:
                    dd = (key in kt[0]) == kt[1]
                elif isinstance(n.ast, ast.Name):
                    dd = self._named_condition(key, n)
                    if dd is None and self.extra is not None:
                        dd = self.extra(n.ast)
                else:
                    dd = self.extra(n.ast) if self.extra is not None and n.ast is not None else None
                if dd is not None:
                    drop = "false" if dd else "true"
                    be |= {(n.id, m, l) for m, l in self.g.succ[n.id] if l == drop}
            cache[key] = be
        return cache[key]

    def _defs_under(self, fi: FuncInfo, key: str | None, at: Node, name: ast.Name) -> list[tuple[ast.expr, Node]]:
        ids = {n.id for n in self.under(key)}
        found, hit_entry = reaching_defs(self.g, at.id, name.id, self.blocked_under(key))
        table = _def_nodes(self.g).get(name.id, {})
        return [(table[d], self.g.nodes[d]) for d in found if d in ids and table[d] is not None and d != at.id]

    def values_under(self, fi: FuncInfo, key: str | None, at: Node, e: ast.expr, depth: int = 6) -> list[ast.expr]:
        """Leaf expressions ``e`` can evaluate to at node ``at`` when the subject equals ``key``: conditional expressions are decided,
        locals are followed through the definitions that are reachable under the key."""
        if depth <= 0:
            return [e]
        if isinstance(e, ast.IfExp):
            t = self.truth_under(fi, key, at, e.test)
            arms = [e.body] if t is True else ([e.orelse] if t is False else [e.body, e.orelse])
            return [x for a in arms for x in self.values_under(fi, key, at, a, depth - 1)]
        if isinstance(e, ast.Name) and isinstance(e.ctx, ast.Load):
            defs = self._defs_under(fi, key, at, e)
            if defs:
                return [x for v, d in defs for x in self.values_under(fi, key, d, v, depth - 1)]
        tables = getattr(self, "tables", None)
        if tables and key is not None and isinstance(e, ast.Subscript) and isinstance(e.value, ast.Name) and key in tables.get(e.value.id, {}):
            # TABLE[subject] with a module-level table keyed by the dispatch keys: the entry of the key under consideration
            return self.values_under(fi, key, at, tables[e.value.id][key], depth - 1)
        if isinstance(e, ast.Name) and isinstance(e.ctx, ast.Load) and isinstance(fi.module.globals.get(e.id), (ast.Tuple, ast.List)) \
                and not any(isinstance(x, ast.Name) and x.id == e.id and isinstance(x.ctx, ast.Store) for x in ast.walk(fi.node)):
            return [fi.module.globals[e.id]]  # a module-level constant table
        if isinstance(e, ast.Subscript):
            index: int | None = None
            if isinstance(e.slice, ast.Constant) and isinstance(e.slice.value, int):
                index = e.slice.value  # (a, b)[0] / the synthetic definition of a name bound by tuple unpacking
            else:
                # TABLE[flag]: a boolean decided by the key indexes as 0 / 1
                src = e.slice
                if isinstance(src, ast.Name):
                    ds = self._defs_under(fi, key, at, src)
                    boolish = bool(ds) and all(isinstance(v, (ast.BoolOp, ast.Compare)) or (isinstance(v, ast.UnaryOp) and isinstance(v.op, ast.Not)) for v, _ in ds)
                else:
                    boolish = isinstance(src, (ast.BoolOp, ast.Compare)) or (isinstance(src, ast.UnaryOp) and isinstance(src.op, ast.Not))
                t = self.truth_under(fi, key, at, src) if boolish else None
                if t is not None:
                    index = int(t)
            if index is not None:
                out: list[ast.expr] = []
                for v in self.values_under(fi, key, at, e.value, depth - 1):
                    if isinstance(v, (ast.Tuple, ast.List)) and -len(v.elts) <= index < len(v.elts) and not any(isinstance(x, ast.Starred) for x in v.elts):
                        out += self.values_under(fi, key, at, v.elts[index], depth - 1)
                    else:
                        return [e]
                return out or [e]
        return [e]

    def dicts_under(self, fi: FuncInfo, key: str | None) -> list[dict[str, set[str]]]:
        """Constant-keyed dict displays in the statements reachable under ``key``: entry key -> texts of the values the entry can have
        under the key (locals and conditional expressions resolved with ``values_under``)."""
        out: list[dict[str, set[str]]] = []
        for n in self.under(key):
            if n.ast is None or n.kind == "test":
                continue
            for sub in ast.walk(n.ast):
                if isinstance(sub, ast.Dict) and any(isinstance(k, ast.Constant) for k in sub.keys):
                    out.append({k.value: {ast.unparse(x) for x in self.values_under(fi, key, n, v)} for k, v in zip(sub.keys, sub.values) if isinstance(k, ast.Constant)})
        return out

    def exclusive(self, key: str | None) -> list[Node]:
        """Nodes reachable under ``key`` and under no other key (for None: the genuine default branch)."""
        mine = {n.id for n in self.under(key)}
        for k in [*sorted(self.keys), None]:
            if k != key:
                mine -= {n.id for n in self.under(k)}
        return [n for n in self.g.nodes if n.id in mine]

    def specific(self, key: str | None) -> list[Node]:
        """Nodes reachable under ``key`` but not under every other key / the default."""
        mine = {n.id for n in self.under(key)}
        others = [k for k in [*sorted(self.keys), None] if k != key]
        common = set(mine)
        for k in others:
            common &= {n.id for n in self.under(k)}
        return [n for n in self.g.nodes if n.id in mine - common]


def dict_literals(nodes) -> list[dict[str, str]]:
    """Constant-keyed dict literals (key -> value source text) in the statements of the given CFG nodes."""
    out: list[dict[str, str]] = []
    for n in nodes:
        if n.ast is None or n.kind == "test":
            continue
        for sub in ast.walk(n.ast):
            if isinstance(sub, ast.Dict) and any(isinstance(k, ast.Constant) for k in sub.keys):
                out.append({k.value: ast.unparse(v) for k, v in zip(sub.keys, sub.values) if isinstance(k, ast.Constant)})
    return out


def single_defs(fn: ast.AST) -> dict[str, ast.expr]:
    """Locals assigned exactly once in ``fn`` by a plain (annotated) assignment: name -> value expression."""
    cached = getattr(fn, "_xsa_single_defs", None)
    if cached is not None:
        return cached
    count: dict[str, int] = {}
    value: dict[str, ast.expr] = {}
    params = set()
    if isinstance(fn, (ast.FunctionDef, ast.AsyncFunctionDef)):
        a = fn.args
        params = {x.arg for x in [*a.posonlyargs, *a.args, *a.kwonlyargs, *([a.vararg] if a.vararg else []), *([a.kwarg] if a.kwarg else [])]}
    for st, tgt, val in stores(fn):
        if isinstance(tgt, ast.Name):
            count[tgt.id] = count.get(tgt.id, 0) + 1
            if isinstance(st, (ast.Assign, ast.AnnAssign)) and val is not None and not (isinstance(st, ast.Assign) and isinstance(st.targets[0], (ast.Tuple, ast.List))):
                value[tgt.id] = val
            else:
                count[tgt.id] += 1  # loop targets, augmented stores, unpacking: not a single definition
    for n in walk_no_nested(fn):
        if isinstance(n, (ast.With, ast.AsyncWith)):
            for it in n.items:
                if isinstance(it.optional_vars, ast.Name):
                    count[it.optional_vars.id] = count.get(it.optional_vars.id, 0) + 2
        elif isinstance(n, ast.ExceptHandler) and n.name:
            count[n.name] = count.get(n.name, 0) + 2
    out = {k: v for k, v in value.items() if count.get(k) == 1 and k not in params}
    try:
        fn._xsa_single_defs = out  # type: ignore[attr-defined]
    except AttributeError:
        pass
    return out


def expand(fn: ast.AST, e: ast.expr | None, depth: int = 5) -> ast.expr | None:
    """``e`` with every single-assignment local replaced by its defining expression (temporaries looked through)."""
    if e is None:
        return None
    defs = single_defs(fn)
    if not defs:
        return e
    import copy

    class T(ast.NodeTransformer):
        def __init__(self, d: int) -> None:
            self.d = d

        def visit_Name(self, n: ast.Name) -> ast.AST:
            if isinstance(n.ctx, ast.Load) and n.id in defs and self.d > 0:
                return T(self.d - 1).visit(copy.deepcopy(defs[n.id]))
            return n

    return T(depth).visit(copy.deepcopy(e))


def X(fi: FuncInfo, node: ast.AST | None) -> str:
    """Anonymised text of an expression with temporaries expanded (see ``expand`` and ``L``)."""
    if node is None:
        return ""
    return anon_text(expand(fi.node, node), fi.node)


def expand_all(fn: ast.AST, e: ast.expr | None, limit: int = 8) -> list[ast.expr]:
    """Alternatives of ``e``: a local with several plain assignments (e.g. the result slot of an inlined helper) is
    replaced by each of its definitions; single-assignment temporaries are expanded as in ``expand``."""
    if e is None:
        return []
    e = expand(fn, e)
    if isinstance(e, ast.Name) and isinstance(e.ctx, ast.Load):
        defs = [v for st, tgt, v in stores(fn) if isinstance(tgt, ast.Name) and tgt.id == e.id and v is not None and isinstance(st, (ast.Assign, ast.AnnAssign))
                and not (isinstance(st, ast.Assign) and isinstance(st.targets[0], (ast.Tuple, ast.List)))]
        params = set()
        if isinstance(fn, (ast.FunctionDef, ast.AsyncFunctionDef)):
            params = {a.arg for a in [*fn.args.posonlyargs, *fn.args.args, *fn.args.kwonlyargs]}
        if len(defs) > 1 and e.id not in params:
            out: list[ast.expr] = []
            for d in defs[:limit]:
                if not (isinstance(d, ast.Name) and d.id == e.id):
                    out += expand_all(fn, d, limit) if not any(isinstance(x, ast.Name) and x.id == e.id for x in ast.walk(d)) else [d]
            return out[:limit]
    return [e]


def return_values(fn: ast.AST) -> list[ast.expr]:
    """All value expressions the function can return (temporaries and inlined-helper result slots looked through)."""
    out: list[ast.expr] = []
    for r in walk_no_nested(fn):
        if isinstance(r, ast.Return):
            out += expand_all(fn, r.value) if r.value is not None else [ast.Constant(value=None)]
    return out


def names_from_calls(fn: ast.AST, callee_names: Iterable[str], index: int | None = None) -> set[str]:
    """Locals assigned from a call to one of ``callee_names`` (last attribute / bare name); ``index`` selects the
    position inside a tuple-unpacking target - or ``parts = f(); x = parts[index]`` - (None = plain assignment or any position).
    Plain aliases of such locals are included."""
    want = set(callee_names)
    out: set[str] = set()
    whole: set[str] = set()
    assigns = [n for n in [fn, *walk_no_nested(fn)] if isinstance(n, (ast.Assign, ast.AnnAssign)) and n.value is not None]
    for n in assigns:
        if isinstance(n.value, ast.Call):
            f = n.value.func
            nm = f.attr if isinstance(f, ast.Attribute) else (f.id if isinstance(f, ast.Name) else "")
            if nm not in want:
                continue
            targets = n.targets if isinstance(n, ast.Assign) else [n.target]
            for t in targets:
                if isinstance(t, ast.Name):
                    whole.add(t.id)
                    if index is None:
                        out.add(t.id)
                elif isinstance(t, (ast.Tuple, ast.List)):
                    elts = t.elts if index is None else t.elts[index:index + 1] if -len(t.elts) <= index < len(t.elts) else []
                    out |= {e.id for e in elts if isinstance(e, ast.Name)}
    changed = True
    while changed:
        changed = False
        for n in assigns:
            targets = n.targets if isinstance(n, ast.Assign) else [n.target]
            names = {t.id for t in targets if isinstance(t, ast.Name)}
            if not names or names <= out:
                continue
            v = n.value
            hit = (isinstance(v, ast.Name) and v.id in out) or (
                isinstance(v, ast.Subscript) and isinstance(v.value, ast.Name) and v.value.id in whole and isinstance(v.slice, ast.Constant)
                and (index is None or v.slice.value == index))
            if hit:
                out |= names
                changed = True
    return out


def call_name_of(c: ast.Call) -> str:
    f = c.func
    return f.attr if isinstance(f, ast.Attribute) else (f.id if isinstance(f, ast.Name) else "")


def guarded_subscripts(fn: ast.AST, mapping_text: str) -> list[tuple[ast.Subscript, bool]]:
    """Every load ``M[K]`` of the named mapping with: is it executed only when a test ``K in M`` was true?"""
    g = build_cfg(fn)
    out: list[tuple[ast.Subscript, bool]] = []
    for n in g.nodes:
        if n.ast is None:
            continue
        roots = [n.ast] if n.kind == "test" else header_exprs_of(n)
        for root in roots:
            for sub in ast.walk(root):
                if isinstance(sub, ast.Subscript) and isinstance(sub.ctx, ast.Load) and ast.unparse(sub.value) == mapping_text:
                    key = ast.unparse(sub.slice)
                    ok = any(t.kind == "test" and isinstance(t.ast, ast.Compare) and len(t.ast.ops) == 1 and isinstance(t.ast.ops[0], (ast.In, ast.NotIn))
                             and ast.unparse(t.ast.left) == key and ast.unparse(t.ast.comparators[0]) == mapping_text and g.only_if(n.id, t.id, isinstance(t.ast.ops[0], ast.In)) for t in g.nodes)
                    out.append((sub, ok))
    return out


def header_exprs_of(n: Node) -> list[ast.AST]:
    from .cfg import header_exprs

    return header_exprs(n.ast) if n.ast is not None and isinstance(n.ast, ast.stmt) else ([n.ast] if n.ast is not None else [])


def _def_nodes(g: CFG) -> dict[str, dict[int, ast.expr | None]]:
    """name -> {cfg node id: defining value (None = opaque definition: loop target, unpacking, augmented, with/except)}."""
    cached = getattr(g, "_xsa_defs", None)
    if cached is not None:
        return cached
    out: dict[str, dict[int, ast.expr | None]] = {}
    for n in g.nodes:
        st = n.ast
        if st is None:
            continue
        if n.kind == "test":
            # `(x := e)` evaluated by the test defines x with value e
            for x in ast.walk(st):
                if isinstance(x, ast.NamedExpr) and isinstance(x.target, ast.Name):
                    out.setdefault(x.target.id, {})[n.id] = x.value
            continue
        if n.kind == "for" and isinstance(st, (ast.For, ast.AsyncFor)):
            for t in ast.walk(st.target):
                if isinstance(t, ast.Name):
                    out.setdefault(t.id, {})[n.id] = None
            continue
        if n.kind == "with" and isinstance(st, (ast.With, ast.AsyncWith)):
            for it in st.items:
                for t in ast.walk(it.optional_vars) if it.optional_vars is not None else []:
                    if isinstance(t, ast.Name):
                        out.setdefault(t.id, {})[n.id] = None
            continue
        if n.kind == "except" and isinstance(st, ast.ExceptHandler) and st.name:
            out.setdefault(st.name, {})[n.id] = None
            continue
        if n.kind != "stmt":
            continue
        if isinstance(st, ast.Assign):
            for t in st.targets:
                if isinstance(t, ast.Name):
                    out.setdefault(t.id, {})[n.id] = st.value
                elif isinstance(t, (ast.Tuple, ast.List)) and all(isinstance(x, ast.Name) for x in t.elts):
                    # a, b = <value>: a is <value>[0], b is <value>[1] (looked through by `flows` when <value> is a tuple display)
                    for i, x in enumerate(t.elts):
                        out.setdefault(x.id, {})[n.id] = ast.copy_location(ast.Subscript(value=st.value, slice=ast.Constant(value=i), ctx=ast.Load()), st)
                else:
                    for x in ast.walk(t):
                        if isinstance(x, ast.Name) and isinstance(x.ctx, ast.Store):
                            out.setdefault(x.id, {})[n.id] = None
        elif isinstance(st, ast.AnnAssign) and isinstance(st.target, ast.Name) and st.value is not None:
            out.setdefault(st.target.id, {})[n.id] = st.value
        elif isinstance(st, ast.AugAssign) and isinstance(st.target, ast.Name):
            # x op= v  defines x as (previous x) op v
            out.setdefault(st.target.id, {})[n.id] = ast.copy_location(ast.BinOp(left=ast.Name(id=st.target.id, ctx=ast.Load()), op=st.op, right=st.value), st)
        if isinstance(st, ast.stmt):
            for x in ast.walk(st):
                if isinstance(x, ast.NamedExpr) and isinstance(x.target, ast.Name):
                    out.setdefault(x.target.id, {})[n.id] = None
    g._xsa_defs = out  # type: ignore[attr-defined]
    return out


def reaching_def(g: CFG, at: int, name: str) -> ast.expr | None:
    """The value of the unique plain assignment of ``name`` that reaches CFG node ``at`` (None if ambiguous / opaque / a parameter)."""
    defs = _def_nodes(g).get(name)
    if not defs:
        return None
    found: set[int] = set()
    seen: set[int] = set()
    stack = [p for p, _ in g.pred[at]]
    hit_entry = False
    while stack:
        n = stack.pop()
        if n in seen:
            continue
        seen.add(n)
        if n in defs:
            found.add(n)
            continue
        if n == g.entry:
            hit_entry = True
        stack.extend(p for p, _ in g.pred[n])
    if len(found) == 1 and not hit_entry:
        return defs[next(iter(found))]
    return None


def expand_at(fi: FuncInfo, node: Node, e: ast.expr | None, depth: int = 4, only: set[str] | None = None) -> ast.expr | None:
    """``e`` as evaluated at CFG node ``node`` with locals replaced by their unique reaching definition (flow-sensitive).
    ``only``: expand just these names of ``e`` (everything inside their definitions is expanded as usual)."""
    if e is None or depth <= 0:
        return e
    import copy

    g = build_cfg(fi.node)
    defs = _def_nodes(g)

    def subst(x: ast.expr, at: int, d: int, top: bool = False) -> ast.expr:
        class T(ast.NodeTransformer):
            def visit_Name(self, n: ast.Name) -> ast.AST:
                if top and only is not None and n.id not in only:
                    return n
                if isinstance(n.ctx, ast.Load) and n.id in defs and d > 0:
                    found = _reaching_node(g, at, n.id)
                    if found is not None and defs[n.id][found] is not None:
                        return subst(copy.deepcopy(defs[n.id][found]), found, d - 1)
                return n

            def visit_Lambda(self, n):
                return n

        return T().visit(x)

    return subst(copy.deepcopy(e), node.id, depth, top=True)


def _reaching_node(g: CFG, at: int, name: str) -> int | None:
    defs = _def_nodes(g).get(name)
    if not defs:
        return None
    found: set[int] = set()
    seen: set[int] = set()
    stack = [p for p, _ in g.pred[at]]
    hit_entry = False
    while stack:
        n = stack.pop()
        if n in seen:
            continue
        seen.add(n)
        if n in defs:
            found.add(n)
            continue
        if n == g.entry:
            hit_entry = True
        stack.extend(p for p, _ in g.pred[n])
    return next(iter(found)) if len(found) == 1 and not hit_entry else None


def forms(fi: FuncInfo, node: Node, e: ast.expr | None) -> set[str]:
    """Anonymised texts of ``e`` at increasing depths of (flow-sensitive) temporary expansion: a rule pattern may match any."""
    if e is None:
        return set()
    return {anon_text(x, fi.node) for x in _expansions(fi, node, e)}


_SWAP = {ast.Eq: ast.Eq, ast.NotEq: ast.NotEq, ast.Is: ast.Is, ast.IsNot: ast.IsNot, ast.Lt: ast.Gt, ast.Gt: ast.Lt, ast.LtE: ast.GtE, ast.GtE: ast.LtE}
_NEG = {ast.Eq: ast.NotEq, ast.NotEq: ast.Eq, ast.Is: ast.IsNot, ast.IsNot: ast.Is, ast.Lt: ast.GtE, ast.GtE: ast.Lt, ast.Gt: ast.LtE, ast.LtE: ast.Gt, ast.In: ast.NotIn, ast.NotIn: ast.In}


def comparison_variants(e: ast.expr) -> list[tuple[ast.expr, bool]]:
    """Every spelling of an atomic test: (expression, same polarity).  ``a != b`` is also ``b != a`` and the negation of ``a == b`` /
    ``b == a``; ``a < b`` is ``b > a`` and the negation of ``a >= b`` / ``b <= a``; ``x not in m`` is the negation of ``x in m``."""
    out: list[tuple[ast.expr, bool]] = [(e, True)]
    if isinstance(e, ast.Compare) and len(e.ops) == 1:
        op, a, b = type(e.ops[0]), e.left, e.comparators[0]
        mk = lambda o, l, r: ast.copy_location(ast.Compare(left=l, ops=[o()], comparators=[r]), e)  # noqa: E731
        if op in _SWAP:
            out.append((mk(_SWAP[op], b, a), True))
        if op in _NEG:
            out.append((mk(_NEG[op], a, b), False))
            if _NEG[op] in _SWAP:
                out.append((mk(_SWAP[_NEG[op]], b, a), False))
    return out


def polar_forms(fi: FuncInfo, node: Node, e: ast.expr | None, anon: bool = True) -> list[tuple[str, bool]]:
    """(text, same polarity) for every expansion depth and every spelling of the test (see ``forms`` and ``comparison_variants``)."""
    if e is None:
        return []
    seen: dict[tuple[str, bool], None] = {}
    for x in _expansions(fi, node, e):
        for v, same in comparison_variants(x):
            seen[(anon_text(v, fi.node) if anon else ast.unparse(v), same)] = None
    return list(seen)


def control_deps(fi: FuncInfo, target: ast.AST | Node) -> list[tuple[str, bool, Node]]:
    """(anonymised test text, polarity, test node) for every atomic test the statement / node is control dependent on
    (exact: removing that out-edge of the test makes the node unreachable).  Each test is listed once per expansion form."""
    g = build_cfg(fi.node)
    n = target if isinstance(target, Node) else node_containing(g, target)
    out: list[tuple[str, bool, Node]] = []
    if n is None:
        return out
    for t in g.nodes:
        if t.kind != "test" or t.ast is None:
            continue
        for pol in (True, False):
            if g.only_if(n.id, t.id, pol):
                for txt, same in sorted(polar_forms(fi, t, t.ast)):
                    out.append((txt, pol if same else not pol, t))
    return out


def dep_texts(fi: FuncInfo, target: ast.AST | Node, polarity: bool | None = None) -> set[str]:
    return {t for t, pol, _ in control_deps(fi, target) if polarity is None or pol == polarity}


def tests_like(fi: FuncInfo, *patterns: str) -> list[Node]:
    """Atomic tests one of whose expansion forms equals one of the (``A``-normalised) patterns."""
    g = build_cfg(fi.node)
    want = {A(p) for p in patterns}
    return [t for t in g.nodes if t.kind == "test" and t.ast is not None and {f for f, same in polar_forms(fi, t, t.ast) if same} & want]


def alternatives(fn: ast.AST, e: ast.expr | None) -> list[ast.expr]:
    """Leaves of a value expression: temporaries expanded, ``a or b`` and ``x if c else y`` split into their operands."""
    out: list[ast.expr] = []
    for v in expand_all(fn, e):
        if isinstance(v, ast.BoolOp) and isinstance(v.op, ast.Or):
            for sub in v.values:
                out += alternatives(fn, sub)
        elif isinstance(v, ast.IfExp):
            out += alternatives(fn, v.body) + alternatives(fn, v.orelse)
        else:
            out.append(v)
    return out


def family(repo, fi: FuncInfo, depth: int = 3) -> list[FuncInfo]:
    """``fi`` plus the helpers of its class / module it still calls - underscore-private ones and functions that do not exist
    on the pinned tree (products of "extract method") - i.e. those the inliner could not splice (a multi-return helper used inside
    a comprehension or a boolean expression), transitively."""
    out = [fi]
    seen = {fi.qual}
    frontier = [fi]
    for _ in range(depth):
        nxt: list[FuncInfo] = []
        for f in frontier:
            # helpers that are called - and helpers that are handed over as values: map(self.build_choice, xs), partial(cls.convert, ...)
            refs: list[ast.expr] = [c.func for c in calls_in(f.node)]
            refs += [x for x in walk_no_nested(f.node) if isinstance(x, ast.Attribute) and isinstance(x.ctx, ast.Load) and isinstance(x.value, ast.Name) and x.value.id in ("self", "cls")]
            refs += [x for x in walk_no_nested(f.node) if isinstance(x, ast.Name) and isinstance(x.ctx, ast.Load)]
            for fx in refs:
                name = fx.attr if isinstance(fx, ast.Attribute) else (fx.id if isinstance(fx, ast.Name) else "")
                if not name or name.startswith("__"):
                    continue
                h = None
                if isinstance(fx, ast.Attribute) and isinstance(fx.value, ast.Name) and fx.value.id in ("self", "cls") and f.cls is not None:
                    h = f.cls.find_method(name)
                    if h is not None and h.is_property:
                        h = None
                elif isinstance(fx, ast.Name):
                    h = repo.functions.get(f"{f.module.name}:{name}")
                if h is not None and not name.startswith("_"):
                    from .inline import known_functions

                    if h.qual in known_functions():
                        h = None  # a function of the pinned tree is not an implementation detail of its caller
                if h is not None and h.qual not in seen:
                    seen.add(h.qual)
                    out.append(h)
                    nxt.append(h)
        frontier = nxt
    return out


def reaching_defs(g: CFG, at: int, name: str, blocked_edges: set | None = None) -> tuple[list[int], bool]:
    """(definition nodes of ``name`` that reach node ``at``, whether the function entry also reaches it undefined).
    ``blocked_edges``: (from, to, label) edges that are to be ignored (a partial evaluation's decided branches)."""
    defs = _def_nodes(g).get(name)
    if not defs:
        return [], True
    be = blocked_edges or set()
    found: list[int] = []
    seen: set[int] = set()
    stack = [p for p, lab in g.pred[at] if (p, at, lab) not in be]
    hit_entry = False
    while stack:
        n = stack.pop()
        if n in seen:
            continue
        seen.add(n)
        if n in defs:
            if n not in found:
                found.append(n)
            continue
        if n == g.entry:
            hit_entry = True
        stack.extend(p for p, lab in g.pred[n] if (p, n, lab) not in be)
    return sorted(found), hit_entry


def flows(fi: FuncInfo, at: Node, e: ast.expr | None, depth: int = 6) -> list[tuple[ast.expr, list[Node]]]:
    """Leaves of the value of ``e`` at CFG node ``at``: (leaf expression, CFG nodes the value passed through - the
    definition sites, innermost last).  Locals are followed through all their reaching plain assignments; ``a or b``
    and ``x if c else y`` are split.  The conditions under which a leaf flows are the control dependences of the
    returned nodes (plus those of ``at``)."""
    if e is None:
        return []
    g = build_cfg(fi.node)
    if isinstance(e, ast.IfExp):
        a, b = flows(fi, at, e.body, depth), flows(fi, at, e.orelse, depth)
        for leaf, _ in a:
            _tag_value_cond(leaf, e.test, True)
        for leaf, _ in b:
            _tag_value_cond(leaf, e.test, False)
        return a + b
    if isinstance(e, ast.BoolOp) and isinstance(e.op, ast.Or):
        out: list[tuple[ast.expr, list[Node]]] = []
        for i, v in enumerate(e.values):
            part = flows(fi, at, v, depth)
            for leaf, _ in part:
                # `a or b`: a is the value only when it is truthy, b only when a was not
                if i < len(e.values) - 1:
                    _tag_value_cond(leaf, v, True)
                for prev in e.values[:i]:
                    _tag_value_cond(leaf, prev, False)
            out += part
        return out
    if isinstance(e, ast.Subscript) and isinstance(e.slice, ast.Slice) and e.slice.step is None and depth > 0 and all(
            b is None or (isinstance(b, ast.Constant) and isinstance(b.value, int)) for b in (e.slice.lower, e.slice.upper)):
        # pair[:2] where pair = (a, b, c): the sub-tuple display
        out = []
        lo = e.slice.lower.value if e.slice.lower is not None else None
        hi = e.slice.upper.value if e.slice.upper is not None else None
        for leaf, chain in flows(fi, at, e.value, depth - 1):
            if isinstance(leaf, (ast.Tuple, ast.List)) and not any(isinstance(x, ast.Starred) for x in leaf.elts):
                sub = ast.copy_location(ast.Tuple(elts=leaf.elts[lo:hi], ctx=ast.Load()), e)
                sub._xsa_at = chain[-1] if chain else at  # type: ignore[attr-defined]
                out.append((sub, chain))
            else:
                out.append((ast.copy_location(ast.Subscript(value=leaf, slice=e.slice, ctx=ast.Load()), e), chain))
        return out
    if isinstance(e, ast.Subscript) and isinstance(e.slice, ast.Constant) and isinstance(e.slice.value, int) and depth > 0:
        # element of a tuple / list display that flows here: pair[0] where pair = (a, b)
        out = []
        for leaf, chain in flows(fi, at, e.value, depth - 1):
            if isinstance(leaf, (ast.Tuple, ast.List)) and -len(leaf.elts) <= e.slice.value < len(leaf.elts) and not any(isinstance(x, ast.Starred) for x in leaf.elts):
                where = chain[-1] if chain else at
                for l2, c2 in flows(fi, where, leaf.elts[e.slice.value], depth - 1):
                    out.append((l2, [*chain, *c2]))
            else:
                out.append((ast.copy_location(ast.Subscript(value=leaf, slice=e.slice, ctx=ast.Load()), e), chain))
        return out
    if isinstance(e, ast.Name) and isinstance(e.ctx, ast.Load) and depth > 0:
        found, hit_entry = reaching_defs(g, at.id, e.id)
        table = _def_nodes(g).get(e.id, {})
        is_param = isinstance(fi.node, (ast.FunctionDef, ast.AsyncFunctionDef)) and e.id in {a.arg for a in [*fi.node.args.posonlyargs, *fi.node.args.args, *fi.node.args.kwonlyargs]}
        if found and (not hit_entry or is_param) and all(table[d] is not None for d in found):
            out = []
            for d in found:
                v = table[d]
                if d == at.id:
                    continue  # a definition that only reaches itself around a loop
                for leaf, chain in flows(fi, g.nodes[d], v, depth - 1):
                    out.append((leaf, [g.nodes[d], *chain]))
            if hit_entry and is_param:
                out.append((e, []))  # the parameter's own (caller supplied) value also reaches this use
            if out:
                return out
    return [(e, [])]


def _tag_value_cond(leaf: ast.expr, cond: ast.expr, polarity: bool) -> None:
    lst = leaf.__dict__.setdefault("_xsa_value_conds", [])
    if not any(c is cond and p == polarity for c, p in lst):
        lst.append((cond, polarity))


def leaf_conditions(fi: FuncInfo, at: Node, leaf: ast.expr, chain: list[Node]) -> set[tuple[str, bool]]:
    """Conditions under which ``leaf`` is the value that flows to ``at``: the control dependences of the use and definition sites
    (``flow_conditions``) plus the operand conditions of ``a or b`` / ``x if c else y`` expressions the leaf was selected by."""
    out = flow_conditions(fi, at, chain)
    for cond, pol in getattr(leaf, "_xsa_value_conds", []):
        c = cond
        while isinstance(c, ast.UnaryOp) and isinstance(c.op, ast.Not):
            c, pol = c.operand, not pol
        out.add((anon_text(c, fi.node), pol))
    return out


def flow_conditions(fi: FuncInfo, at: Node, chain: list[Node]) -> set[tuple[str, bool]]:
    """Union of the control dependences (text form, polarity) of the use site and of every definition site of a flow."""
    out: set[tuple[str, bool]] = set()
    for n in [at, *chain]:
        for txt, pol, _ in control_deps(fi, n):
            out.add((txt, pol))
    return out


def str_template(e: ast.expr) -> list[tuple[str, object]] | None:
    """A string-building expression as literal parts and holes: [("lit", "from "), ("hole", <expr>), ...]; None if not a template."""
    if isinstance(e, ast.Constant) and isinstance(e.value, str):
        return [("lit", e.value)]
    if isinstance(e, ast.JoinedStr):
        out: list[tuple[str, object]] = []
        for v in e.values:
            if isinstance(v, ast.Constant):
                out.append(("lit", v.value))
            elif isinstance(v, ast.FormattedValue):
                out.append(("hole", v.value))
        return out
    if isinstance(e, ast.Call) and isinstance(e.func, ast.Attribute) and e.func.attr == "format" and isinstance(e.func.value, ast.Constant) and isinstance(e.func.value.value, str):
        import re as _re

        parts = _re.split(r"(\{(?:\d*|[a-zA-Z_]\w*)(?:![rsa])?(?::[^{}]*)?\})", e.func.value.value)
        out = []
        auto = 0
        star = next((i for i, a in enumerate(e.args) if isinstance(a, ast.Starred)), None)

        def positional(i: int):
            # .format(sign, *rest): positions from the starred argument on are "some element of rest"
            if star is not None and i >= star:
                return e.args[star]
            return e.args[i] if i < len(e.args) else None

        for p in parts:
            if not p:
                continue
            if p.startswith("{") and p.endswith("}") and "{{" not in p:
                key = p[1:-1].split(":", 1)[0].split("!", 1)[0]
                if key == "":
                    arg = positional(auto)
                    auto += 1
                elif key.isdigit():
                    arg = positional(int(key))
                else:
                    arg = next((k.value for k in e.keywords if k.arg == key), None)
                if arg is None:
                    return None
                out.append(("hole", arg))
            else:
                out.append(("lit", p.replace("{{", "{").replace("}}", "}")))
        return out
    if isinstance(e, ast.BinOp) and isinstance(e.op, ast.Add):
        l, r = str_template(e.left), str_template(e.right)
        if l is not None and r is not None:
            return l + r
        if l is not None:
            return l + [("hole", e.right)]
        if r is not None:
            return [("hole", e.left)] + r
        return [("hole", e.left), ("hole", e.right)]
    if isinstance(e, ast.BinOp) and isinstance(e.op, ast.Mod) and isinstance(e.left, ast.Constant) and isinstance(e.left.value, str):
        args = list(e.right.elts) if isinstance(e.right, ast.Tuple) else [e.right]
        parts = e.left.value.split("%s")
        if len(parts) == len(args) + 1:
            out = []
            for i, p in enumerate(parts):
                if p:
                    out.append(("lit", p))
                if i < len(args):
                    out.append(("hole", args[i]))
            return out
    return None


def template_text(t: list[tuple[str, object]]) -> str:
    """Literal skeleton of a template with holes written as {}."""
    return "".join(v if k == "lit" else "{}" for k, v in t)  # type: ignore[misc]


def entry_conditions(fi: FuncInfo, target: ast.AST | Node) -> list[tuple[str, bool, Node]]:
    """The branch edges that lead directly into the node's block: (test text form, outcome, test node) for every atomic test
    from which the node is reached without passing another test.  For ``if a or b: X`` these are (a, True) and (b, True) - the
    alternatives, none of which is a *necessary* condition in the sense of ``control_deps``."""
    g = build_cfg(fi.node)
    n = target if isinstance(target, Node) else g.node_of(target)
    out: list[tuple[str, bool, Node]] = []
    if n is None:
        return out
    seen: set[int] = set()
    stack = [n.id]
    while stack:
        cur = stack.pop()
        if cur in seen:
            continue
        seen.add(cur)
        for p, lab in g.pred[cur]:
            pn = g.nodes[p]
            if pn.kind == "test" and lab in ("true", "false"):
                for txt, same in sorted(polar_forms(fi, pn, pn.ast)):
                    out.append((txt, (lab == "true") if same else (lab != "true"), pn))
            elif pn.kind not in ("test",) and lab != "exc":
                stack.append(p)
    return out


def func_text(fi: FuncInfo, call: ast.Call) -> str:
    """Source text of the called expression with alias temporaries looked through (``f = self.factory; f(x)`` -> ``self.factory``)."""
    return ast.unparse(expand(fi.node, call.func))


def calls_named(fi: FuncInfo, *texts: str) -> list[ast.Call]:
    """Calls of the function whose (alias-expanded) callee text is one of ``texts``."""
    want = set(texts)
    return [c for c in calls_in(fi.node) if func_text(fi, c) in want]


def leaves_at(fi: FuncInfo, where: ast.AST | Node, e: ast.expr | None) -> list[ast.expr]:
    """Flow leaves of ``e`` evaluated at the CFG node that owns ``where`` (see ``flows``)."""
    g = build_cfg(fi.node)
    n = where if isinstance(where, Node) else node_containing(g, where)
    if n is None or e is None:
        return [] if e is None else [e]
    return [leaf for leaf, _ in flows(fi, n, e)]


def arg_forms(fi: FuncInfo, call: ast.Call, e: ast.expr | None) -> set[str]:
    """Expansion forms (anonymised) of an argument expression of ``call``."""
    g = build_cfg(fi.node)
    n = node_containing(g, call)
    if e is None:
        return set()
    return forms(fi, n, e) if n is not None else {anon_text(e, fi.node)}


def raw_forms(fi: FuncInfo, where: ast.AST | Node, e: ast.expr | None) -> set[str]:
    """Like ``forms`` but NOT anonymised: source text of ``e`` at increasing depths of temporary expansion."""
    g = build_cfg(fi.node)
    n = where if isinstance(where, Node) else node_containing(g, where)
    if e is None:
        return set()
    if n is None:
        return {ast.unparse(e)}
    return {ast.unparse(x) for x in _expansions(fi, n, e)}


def test_subject(t: Node) -> ast.expr | None:
    """The expression whose truthiness an atomic test decides: the test itself, or the target of ``(x := e)``."""
    e = t.ast
    if isinstance(e, ast.NamedExpr):
        return e.target
    return e if isinstance(e, ast.expr) else None


def truthy_guard(fi: FuncInfo, target: ast.AST | Node, value: ast.expr) -> bool:
    """``target`` runs only when ``value`` (a local, or any expression) was tested truthy: it is control dependent (True) on a test
    whose subject is that very local / has the same text, or whose walrus binds it."""
    g = build_cfg(fi.node)
    n = target if isinstance(target, Node) else g.node_of(target)
    if n is None:
        return False
    want = ast.unparse(value)
    for t in g.nodes:
        if t.kind != "test" or t.ast is None:
            continue
        subj = test_subject(t)
        if subj is not None and ast.unparse(subj) == want and g.only_if(n.id, t.id, True):
            return True
    return False


def none_cond(conds, want_none: bool = True) -> bool:
    """Among (text, polarity) conditions: some test establishes that a value IS None (``x is None`` true / ``x is not None`` false),
    or - with ``want_none=False`` - that it is not."""
    for item in conds:
        t, pol = item[0], item[1]
        if t.endswith("isNone") and pol == want_none:
            return True
        if t.endswith("isnotNone") and pol != want_none:
            return True
    return False


def enumerate_paths(g: CFG, src: int, dst: int, limit: int = 400) -> list[list[tuple[int, str]]]:
    """Simple paths (no node repeated) from ``src`` to ``dst`` as lists of (node id, label of the edge taken out of it); exceptional
    edges are not followed.  Empty list if there are more than ``limit`` (callers must treat that as "cannot decide")."""
    out: list[list[tuple[int, str]]] = []
    stack: list[tuple[int, list[tuple[int, str]], frozenset[int]]] = [(src, [], frozenset([src]))]
    while stack:
        n, path, seen = stack.pop()
        if n == dst:
            out.append(path)
            if len(out) > limit:
                return []
            continue
        for m, lab in g.succ[n]:
            if lab == "exc" or m in seen:
                continue
            stack.append((m, [*path, (n, lab)], seen | {m}))
    return out


def path_conditions(fi: FuncInfo, target: ast.AST | Node, start: Node | None = None) -> list[list[tuple[set[str], bool, Node]]]:
    """For every simple path from the function entry (or ``start``) to the node: the atomic tests decided on it, each with the
    text forms of the test *as evaluated on that path* (locals replaced by their most recent plain assignment on the path) and
    the outcome taken.  Path sensitive: `c = a` on one arm and `c = b` on the other give different forms for a later test on c."""
    g = build_cfg(fi.node)
    n = target if isinstance(target, Node) else g.node_of(target)
    if n is None:
        return []
    import copy

    out = []
    for path in enumerate_paths(g, (start or g.nodes[g.entry]).id, n.id):
        env: dict[str, ast.expr | None] = {}
        conds: list[tuple[set[str], bool, Node]] = []

        def subst(e: ast.expr, depth: int = 4) -> ast.expr:
            class T(ast.NodeTransformer):
                def visit_Name(self, x: ast.Name):
                    if isinstance(x.ctx, ast.Load) and env.get(x.id) is not None and depth > 0:
                        return copy.deepcopy(env[x.id])
                    return x

                def visit_Lambda(self, x):
                    return x

            return T().visit(copy.deepcopy(e))

        for nid, lab in path:
            node = g.nodes[nid]
            st = node.ast
            if node.kind == "test" and st is not None:
                for x in ast.walk(st):
                    if isinstance(x, ast.NamedExpr) and isinstance(x.target, ast.Name):
                        env[x.target.id] = subst(x.value)
                if lab in ("true", "false"):
                    same_t: set[str] = set()
                    compl_t: set[str] = set()
                    for x in (st, subst(st)):
                        for v, same in comparison_variants(x):
                            (same_t if same else compl_t).add(anon_text(v, fi.node))
                    conds.append((same_t, lab == "true", node))
                    if compl_t:
                        conds.append((compl_t, lab != "true", node))
            elif node.kind == "stmt" and isinstance(st, (ast.Assign, ast.AnnAssign)) and st.value is not None:
                tgts = st.targets if isinstance(st, ast.Assign) else [st.target]
                for t in tgts:
                    if isinstance(t, ast.Name):
                        env[t.id] = subst(st.value)
                    else:
                        for x in ast.walk(t):
                            if isinstance(x, ast.Name) and isinstance(x.ctx, ast.Store):
                                env[x.id] = None
            elif node.kind == "stmt" and isinstance(st, ast.AugAssign) and isinstance(st.target, ast.Name):
                env[st.target.id] = None
            elif node.kind == "for" and st is not None:
                for x in ast.walk(st.target):
                    if isinstance(x, ast.Name):
                        env[x.id] = None
        out.append(conds)
    return out


def node_containing(g: CFG, where: ast.AST) -> Node | None:
    """CFG node that owns ``where``: the registered owner, else the statement / test node whose syntax tree contains it."""
    n = g.node_of(where)
    if n is not None:
        return n
    for cand in g.nodes:
        if cand.ast is None:
            continue
        roots = [cand.ast] if cand.kind == "test" else header_exprs_of(cand)
        for r in roots:
            for x in ast.walk(r):
                if x is where:
                    return cand
    return None


def atomic_conditions(fn: ast.AST) -> list[ast.expr]:
    """Every atomic condition of a function: the CFG's test nodes plus the (and / or / not flattened) filters of its comprehensions
    and generator expressions, and the tests of conditional expressions that are not in statement position."""
    g = build_cfg(fn)
    out: list[ast.expr] = [t.ast for t in g.nodes if t.kind == "test" and t.ast is not None]

    def flat(e: ast.expr) -> list[ast.expr]:
        if isinstance(e, ast.BoolOp):
            return [x for v in e.values for x in flat(v)]
        if isinstance(e, ast.UnaryOp) and isinstance(e.op, ast.Not):
            return flat(e.operand)
        return [e]

    for n in walk_no_nested(fn):
        if isinstance(n, ast.comprehension):
            for c in n.ifs:
                out += flat(c)
        elif isinstance(n, ast.IfExp):
            out += flat(n.test)
    return out


def subject(fn: ast.AST, text: str):
    """Predicate for Dispatch: the expression is ``text`` itself or a local that is a plain alias of it (``use = self.use``)."""
    aliases = {k for k, v in single_defs(fn).items() if ast.unparse(v) == text}
    return lambda e: ast.unparse(e) == text or (isinstance(e, ast.Name) and e.id in aliases)


def reach_table(fi: FuncInfo, target: ast.AST | Node, atoms: list[dict[str, bool]], raw: bool = False) -> dict[tuple[bool, ...], bool] | None:
    """Truth table of "``target`` can execute" over named atomic facts.

    ``atoms[i]`` maps test texts (spaces removed, temporaries expanded: any of ``forms`` - or of ``raw_forms`` with ``raw=True``, where
    locals keep their names) to the value of fact i that makes the test true, e.g. ``{"self.xsi_nil": True}`` or
    ``{"value is None": False, "value is not None": True}``.  For every assignment of the facts the tests that state a fact are
    decided and all other tests stay open; the entry says whether the node is still reachable.  Independent of if/else orientation,
    De Morgan form, guard clause vs nesting, named conditions and bool() wrappers.

    A fact no test states is simply not consulted (the table is constant in it).  None - "form not recognised, no instance" - when the
    node is not found, or when a test mentions the subject of a fact (its shortest text) in a form the atom does not list."""
    import itertools

    g = build_cfg(fi.node)
    n = target if isinstance(target, Node) else node_containing(g, target)
    if n is None:
        return None
    sp = lambda x: x.replace(" ", "")
    norm = [{sp(k): v for k, v in a.items()} for a in atoms]
    mention = [min((k for k in a if not k.startswith("re:")), key=len, default="\0") for a in norm]
    cls: dict[int, tuple[int, bool]] = {}
    for t in g.nodes:
        if t.kind != "test" or t.ast is None:
            continue
        fs_full = raw_forms(fi, t, t.ast) if raw else {anon_spaced(fi, x) for x in _expansions(fi, t, t.ast)}
        fs = {sp(f) for f in fs_full}
        pf = [(sp(f), same) for f, same in polar_forms(fi, t, t.ast, anon=not raw)]
        for i, a in enumerate(norm):
            hit = [a[f] if same else not a[f] for f, same in pf if f in a] + [v if same else not v for k, v in a.items() if k.startswith("re:") for f, same in pf if re.fullmatch(k[3:], f)]
            if hit:
                cls[t.id] = (i, hit[0])
                break
        else:
            if any(_mentions(f, m) for m in mention for f in fs_full) and _can_divert(g, t.id, n.id):
                return None
    table = {}
    for vals in itertools.product((True, False), repeat=len(atoms)):
        def decide(t: Node, vals=vals):
            c = cls.get(t.id)
            return None if c is None else (vals[c[0]] == c[1])
        table[vals] = n.id in reach_env(g, decide)
    return table


def _can_divert(g: CFG, test: int, target: int) -> bool:
    """The test lies before ``target`` and one of its outcomes leads away from it for good."""
    outs = [m for m, lab in g.succ[test] if lab in ("true", "false")]
    reach = [target == m or target in g.reachable([m]) for m in outs]
    return any(reach) and not all(reach)


def _expansions(fi: FuncInfo, node: Node, e: ast.expr) -> list[ast.expr]:
    """``e`` with its temporaries expanded: all of them at increasing depths, and - so that a pattern can name one operand by its value and
    leave the other as a local - each local of ``e`` on its own."""
    out = [e] + [expand_at(fi, node, e, d) for d in (1, 2, 3, 4)]
    names = sorted({x.id for x in ast.walk(e) if isinstance(x, ast.Name) and isinstance(x.ctx, ast.Load)})
    if 1 < len(names) <= 4:
        for nm in names:
            for d in (1, 2):
                out.append(expand_at(fi, node, e, d, only={nm}))
    return out


def anon_spaced(fi: FuncInfo, e: ast.expr) -> str:
    """Anonymised text that is still parseable (locals read ``_``)."""
    import copy
    from .model import _Anon, local_names

    return ast.unparse(_Anon(local_names(fi.node)).visit(copy.deepcopy(e)))


def _mentions(text: str, subject: str) -> bool:
    """The test ``text`` may state the same fact as an atom about ``subject`` (given without spaces) in a spelling the atom does not list:
    the subject compared with a constant (``x is True``, ``x == ""``, ``len(x) > 0``) or wrapped in len() / bool().  Tests of another
    kind - isinstance(x, T), x in m, x.startswith(..) - are different facts and stay open."""
    try:
        e = ast.parse(text, mode="eval").body
    except SyntaxError:
        return False
    same = lambda x: ast.unparse(x).replace(" ", "") == subject  # noqa: E731

    def wrapped(x: ast.expr) -> bool:
        return same(x) or (isinstance(x, ast.Call) and isinstance(x.func, ast.Name) and x.func.id in ("len", "bool") and len(x.args) == 1 and same(x.args[0]))

    while isinstance(e, ast.UnaryOp) and isinstance(e.op, ast.Not):
        e = e.operand
    if wrapped(e):
        return True
    if isinstance(e, ast.Compare) and len(e.ops) == 1 and not isinstance(e.ops[0], (ast.In, ast.NotIn)):
        a, b = e.left, e.comparators[0]
        return (wrapped(a) and isinstance(b, ast.Constant)) or (wrapped(b) and isinstance(a, ast.Constant))
    return False


# ------------------------------------------------------------------ path-sensitive reachability (None / truthiness of flag-like locals)

_ABS_NONE, _ABS_T, _ABS_F, _ABS_NN = "N", "T", "F", "NN"


def _absval(e: ast.expr | None, env: dict[str, str]) -> str | None:
    if e is None:
        return None
    if isinstance(e, ast.Constant):
        if e.value is None:
            return _ABS_NONE
        return _ABS_T if bool(e.value) else _ABS_F
    if isinstance(e, ast.Name):
        return env.get(e.id)
    if isinstance(e, (ast.List, ast.Tuple, ast.Set)):
        if any(isinstance(x, ast.Starred) for x in e.elts):
            return _ABS_NN
        return _ABS_T if e.elts else _ABS_F
    if isinstance(e, ast.Dict):
        if any(k is None for k in e.keys):
            return _ABS_NN
        return _ABS_T if e.keys else _ABS_F
    if isinstance(e, (ast.JoinedStr, ast.Compare, ast.ListComp, ast.SetComp, ast.DictComp, ast.GeneratorExp)) or (isinstance(e, ast.UnaryOp) and isinstance(e.op, ast.Not)):
        return _ABS_NN
    if isinstance(e, ast.Lambda):
        return _ABS_T
    return None


def _tracked_names(g: CFG) -> set[str]:
    defs = _def_nodes(g)
    tracked: set[str] = set()
    changed = True
    while changed:
        changed = False
        for name, sites in defs.items():
            if name in tracked:
                continue
            for v in sites.values():
                if v is None:
                    continue
                if _absval(v, {}) is not None or (isinstance(v, ast.Name) and v.id in tracked):
                    tracked.add(name)
                    changed = True
                    break
    return tracked


def _test_fact(e: ast.AST) -> tuple[str, str] | None:
    """(name, kind) for tests whose outcome depends on the None-ness / truthiness of a local: kind in truthy | is_none | is_not_none."""
    if isinstance(e, ast.Name):
        return e.id, "truthy"
    if isinstance(e, ast.NamedExpr) and isinstance(e.target, ast.Name):
        return e.target.id, "truthy"
    if isinstance(e, ast.Compare) and len(e.ops) == 1 and isinstance(e.left, ast.Name) and isinstance(e.comparators[0], ast.Constant) and e.comparators[0].value is None:
        if isinstance(e.ops[0], ast.Is):
            return e.left.id, "is_none"
        if isinstance(e.ops[0], ast.IsNot):
            return e.left.id, "is_not_none"
    return None


def _edge_env(kind: str, v: str | None, outcome: bool) -> tuple[bool, str | None]:
    """(edge feasible, refined value) for a test of ``kind`` on a local whose abstract value is ``v``."""
    if kind == "is_not_none":
        kind, outcome = "is_none", not outcome
    if kind == "is_none":
        if outcome:
            return (v in (None, _ABS_NONE)), _ABS_NONE
        return (v != _ABS_NONE), (v if v not in (None, _ABS_NONE) else _ABS_NN)
    # truthiness
    if outcome:
        return (v not in (_ABS_NONE, _ABS_F)), _ABS_T
    return (v != _ABS_T), (_ABS_F if v == _ABS_NN else v)


def reach_env(g: CFG, decide=None, blocked_edges: Iterable = (), limit: int = 100000) -> set[int]:
    """Nodes reachable from the entry, path-sensitively in the None-ness / truthiness of flag-like locals (result slots of inlined helpers,
    ``found = False ... found = True``, ``x = None ... if x is None``): a branch that contradicts what the path assigned is not taken.
    ``decide`` fixes the outcome of chosen tests as in ``CFG.reach_assuming``.  Falls back to plain reachability beyond ``limit`` states."""
    be = set(blocked_edges)
    if decide is not None:
        for n in g.nodes:
            if n.kind == "test":
                d = decide(n)
                if d is not None:
                    drop = "false" if d else "true"
                    be |= {(n.id, m, l) for m, l in g.succ[n.id] if l == drop}
    tracked = _tracked_names(g)
    if not tracked:
        return g.reachable([g.entry], blocked_edges=be)
    defs = _def_nodes(g)
    defs_at: dict[int, list[tuple[str, ast.expr | None]]] = {}
    for name, sites in defs.items():
        if name in tracked:
            for nid, v in sites.items():
                defs_at.setdefault(nid, []).append((name, v))
    start = (g.entry, frozenset())
    seen = {start}
    stack = [start]
    nodes_seen = {g.entry}
    while stack:
        nid, fenv = stack.pop()
        if len(seen) > limit:
            return g.reachable([g.entry], blocked_edges=be)
        env_in = dict(fenv)
        env = dict(env_in)
        for name, v in defs_at.get(nid, ()):  # transfer
            a = _absval(v, env_in) if v is not None else None
            if a is None:
                env.pop(name, None)
            else:
                env[name] = a
        node = g.nodes[nid]
        fact = _test_fact(node.ast) if node.kind == "test" and node.ast is not None else None
        if fact is not None and fact[0] not in tracked:
            fact = None
        for m, lab in g.succ[nid]:
            if (nid, m, lab) in be:
                continue
            out = env
            if lab == "exc":
                out = {k: v for k, v in env_in.items() if k not in {nm for nm, _ in defs_at.get(nid, ())}}
            elif fact is not None and lab in ("true", "false"):
                ok, refined = _edge_env(fact[1], env.get(fact[0]), lab == "true")
                if not ok:
                    continue
                out = dict(env)
                if refined is None:
                    out.pop(fact[0], None)
                else:
                    out[fact[0]] = refined
            st = (m, frozenset(out.items()))
            if st not in seen:
                seen.add(st)
                nodes_seen.add(m)
                stack.append(st)
    return nodes_seen


def cmp_atom(left: str, op: str, right: str) -> dict[str, bool]:
    """Atom for ``reach_table``: every spelling of the comparison ``left op right`` and of its negation."""
    flip = {"<": ">", ">": "<", "<=": ">=", ">=": "<=", "==": "==", "!=": "!=", "is": "is", "is not": "is not"}
    neg = {"<": ">=", ">": "<=", "<=": ">", ">=": "<", "==": "!=", "!=": "==", "is": "is not", "is not": "is", "in": "not in", "not in": "in"}
    out = {f"{left} {op} {right}": True, f"{left} {neg[op]} {right}": False}
    if op in flip:
        out[f"{right} {flip[op]} {left}"] = True
        out[f"{right} {flip[neg[op]]} {left}"] = False
    if op in ("==", "is") and right in ("None", "True", "False"):
        pass
    return out


def _flat_args(fi: FuncInfo, call: ast.Call) -> list[ast.expr] | None:
    """Positional arguments with ``*display`` arguments spliced in (``args = (a, b); f(x, *args)`` -> [x, a, b]); None when a starred
    argument is not a display of known length."""
    out: list[ast.expr] = []
    for a in call.args:
        if isinstance(a, ast.Starred):
            leaves = leaves_at(fi, call, a.value)
            if len(leaves) != 1 or not isinstance(leaves[0], (ast.Tuple, ast.List)) or any(isinstance(e, ast.Starred) for e in leaves[0].elts):
                return None
            out += leaves[0].elts
        else:
            out.append(a)
    return out


UNKNOWN_ARG = ast.Constant(value="<argument packed in a value of unknown shape>")


def call_param(ctx, fi: FuncInfo, call: ast.Call, param: str) -> ast.expr | None:
    """The argument bound to parameter ``param`` at this call, given by keyword or positionally (the callee - function, method or
    constructor - is resolved to find the position; ``*display`` arguments are spliced).  None: not passed; ``UNKNOWN_ARG``: the call
    packs its arguments in a way that cannot be read (``*args`` / ``**kwargs`` of unknown shape)."""
    k = kwarg(call, param)
    if k is not None:
        return k
    for kw in call.keywords:
        if kw.arg is None:
            leaves = leaves_at(fi, call, kw.value)
            if len(leaves) == 1 and isinstance(leaves[0], ast.Dict) and all(isinstance(x, ast.Constant) for x in leaves[0].keys):
                for dk, dv in zip(leaves[0].keys, leaves[0].values):
                    if dk.value == param:
                        return dv
            else:
                return UNKNOWN_ARG
    flat = _flat_args(fi, call)
    if flat is None:
        return UNKNOWN_ARG
    if len(flat) != len(call.args) or any(isinstance(a, ast.Starred) for a in call.args):
        call = ast.copy_location(ast.Call(func=call.func, args=flat, keywords=call.keywords), call)
    r = ctx.res.resolve_call(fi, call)
    found: list[ast.expr | None] = []
    for f in r.funcs:
        found.append(bound_arg(call, f, param))
    for ci in r.ctors:
        init = ci.find_method("__init__")
        if init is not None:
            found.append(bound_arg(call, init, param))
        else:
            return None  # dataclass-style constructor: field order not modelled here
    if found and all(x is found[0] for x in found):
        return found[0]
    return None


def call_keywords(fi: FuncInfo, call: ast.Call) -> tuple[dict[str, ast.expr], bool]:
    """(keyword -> value, complete?) of a call: the written keywords plus the entries of ``**options`` when options is (flows from) one
    dict display with constant keys.  complete is False when some ``**`` argument has another shape."""
    out: dict[str, ast.expr] = {}
    complete = True
    for kw in call.keywords:
        if kw.arg is not None:
            out[kw.arg] = kw.value
            continue
        leaves = leaves_at(fi, call, kw.value)
        if len(leaves) == 1 and isinstance(leaves[0], ast.Dict) and all(isinstance(x, ast.Constant) and isinstance(x.value, str) for x in leaves[0].keys):
            for dk, dv in zip(leaves[0].keys, leaves[0].values):
                out.setdefault(dk.value, dv)
        elif len(leaves) == 1 and isinstance(leaves[0], ast.Call) and isinstance(leaves[0].func, ast.Name) and leaves[0].func.id == "dict" and not leaves[0].args \
                and all(k.arg is not None for k in leaves[0].keywords):
            for k in leaves[0].keywords:
                out.setdefault(k.arg, k.value)
        else:
            complete = False
    return out, complete


def value_texts(fi: FuncInfo, where: ast.AST | Node, e: ast.expr | None) -> set[str]:
    """Source texts a value may be written as at ``where``: itself, with temporaries expanded, and its flow leaves."""
    if e is None:
        return set()
    return raw_forms(fi, where, e) | {ast.unparse(x) for x in leaves_at(fi, where, e)}


def passes(ctx, fi: FuncInfo, call: ast.Call, param: str, *texts: str) -> bool:
    """The call passes (one of) ``texts`` for parameter ``param`` - by keyword or position, directly or through temporaries."""
    e = call_param(ctx, fi, call, param)
    if e is UNKNOWN_ARG:
        # ambiguity is never an alarm: recorded, and the obligation that asked is not failed by it
        ctx.notes.setdefault("abstained", []).append(f"{ctx._rule}: argument `{param}` of {ast.unparse(call.func)}(...) in {fi.qual.split(':')[1]} is packed in a value of unknown shape")
        return True
    return e is not None and bool(value_texts(fi, call, e) & set(texts))


def callable_body(repo, fi: FuncInfo, e: ast.expr | None) -> tuple[ast.expr, list[str]] | None:
    """(returned expression, parameter names) of a callable given as a lambda, a module-level function name, or a method reference
    (``cls.f`` / ``self.f`` / ``Class.f``) - for callables with a single returned expression; else None."""
    if e is None:
        return None
    if isinstance(e, ast.Lambda):
        return e.body, [a.arg for a in e.args.args]
    h = None
    if isinstance(e, ast.Name):
        h = repo.functions.get(f"{fi.module.name}:{e.id}")
        if h is None:
            for v in [x for x in [single_defs(fi.node).get(e.id)] if x is not None]:
                return callable_body(repo, fi, v)
    elif isinstance(e, ast.Attribute) and isinstance(e.value, ast.Name):
        if e.value.id in ("self", "cls") and fi.cls is not None:
            h = fi.cls.find_method(e.attr)
        else:
            ci = repo.classes.get(repo.resolve_name(fi.module, e.value.id) or "")
            h = ci.find_method(e.attr) if ci is not None else None
    if h is None:
        return None
    rv = return_values(h.node)
    if len(rv) != 1:
        return None
    params = [a.arg for a in h.pos_params]
    if h.cls is not None and not h.is_staticmethod and params:
        params = params[1:]
    return rv[0], params


def sort_calls(fn: ast.AST) -> list[tuple[ast.Call, ast.expr | None, ast.expr | None]]:
    """(call, key, reverse) for every ``sorted(xs, key=..)`` and ``xs.sort(key=..)`` of the function."""
    out = []
    for c in calls_in(fn):
        if (isinstance(c.func, ast.Name) and c.func.id == "sorted") or (isinstance(c.func, ast.Attribute) and c.func.attr == "sort"):
            out.append((c, kwarg(c, "key"), kwarg(c, "reverse")))
    return out


def callable_info(repo, fi: FuncInfo, e: ast.expr | None) -> tuple[FuncInfo, list[str]] | None:
    """A callable given as a lambda, the name of a nested / module-level function, or a method reference, as a (pseudo) FuncInfo that the
    flow primitives accept, plus its parameter names (receiver dropped)."""
    if e is None:
        return None
    if isinstance(e, ast.Lambda):
        if not hasattr(e, "_xsa_fn"):
            fn = ast.FunctionDef(name="<lambda>", args=e.args, body=[ast.copy_location(ast.Return(value=e.body), e.body)], decorator_list=[], returns=None, type_comment=None, type_params=[])
            ast.copy_location(fn, e)
            e._xsa_fn = fn  # type: ignore[attr-defined]
        return FuncInfo(qual=f"{fi.qual}.<lambda>", module=fi.module, cls=None, node=e._xsa_fn, name="<lambda>"), [a.arg for a in e.args.args]
    h = None
    drop_recv = False
    if isinstance(e, ast.Name):
        nested = [n for n in ast.walk(fi.node) if isinstance(n, ast.FunctionDef) and n.name == e.id and n is not fi.node]
        if nested:
            return FuncInfo(qual=f"{fi.qual}.{e.id}", module=fi.module, cls=None, node=nested[0], name=e.id), [a.arg for a in nested[0].args.args]
        h = repo.functions.get(f"{fi.module.name}:{e.id}")
        if h is None:
            v = single_defs(fi.node).get(e.id)
            return callable_info(repo, fi, v) if v is not None else None
    elif isinstance(e, ast.Attribute) and isinstance(e.value, ast.Name):
        if e.value.id in ("self", "cls") and fi.cls is not None:
            h = fi.cls.find_method(e.attr)
        else:
            ci = repo.classes.get(repo.resolve_name(fi.module, e.value.id) or "")
            h = ci.find_method(e.attr) if ci is not None else None
        drop_recv = h is not None and not h.is_staticmethod
    if h is None:
        return None
    params = [a.arg for a in h.pos_params]
    return h, (params[1:] if drop_recv and params else params)


def callable_leaves(repo, fi: FuncInfo, e: ast.expr | None) -> list[tuple[str, set[tuple[str, bool]]]] | None:
    """(anonymised leaf text, conditions) for every value the callable can return - through temporaries, ``a or b``, conditional
    expressions and if/else returns alike.  None: the callable cannot be found."""
    ci = callable_info(repo, fi, e)
    if ci is None:
        return None
    h, _ = ci
    g = build_cfg(h.node)
    out = []
    for r in g.returns():
        if r.ast.value is None:
            out.append(("None", set()))
            continue
        for leaf, chain in flows(h, r, r.ast.value):
            out.append((anon_text(leaf, h.node), leaf_conditions(h, r, leaf, chain)))
    return out


def sort_key_attr(repo, fi: FuncInfo, key: ast.expr | None) -> str | None:
    """The attribute a sort key reads: ``lambda x: x.name`` / a function returning ``x.name`` / ``operator.attrgetter("name")`` -> "name"."""
    if isinstance(key, ast.Name):
        v = single_defs(fi.node).get(key.id)
        if v is None:
            # a module-level name, possibly imported: NAME = operator.attrgetter("attr")
            q = fi.module.imports.get(key.id, "")
            mod_name, _, attr = q.rpartition(".")
            m = repo.modules.get(mod_name) if mod_name else (fi.module if key.id in fi.module.globals else None)
            v = m.globals.get(attr or key.id) if m is not None else None
        if isinstance(v, ast.Call) and call_name_of(v) == "attrgetter":
            key = v
    if isinstance(key, ast.Call) and call_name_of(key) == "attrgetter" and len(key.args) == 1 and isinstance(key.args[0], ast.Constant) and isinstance(key.args[0].value, str):
        return key.args[0].value
    kl = callable_leaves(repo, fi, key)
    if kl and len({t for t, _ in kl}) == 1 and kl[0][0].startswith("_.") and kl[0][0][2:].isidentifier():
        return kl[0][0][2:]
    return None


def returned_sort_keys(fi: FuncInfo) -> list[ast.expr | None] | None:
    """For a function that returns a sorted sequence: the key expression of the sort that produced each returned value -
    ``return sorted(xs, key=K)``, or ``ys = list(xs); ys.sort(key=K); return ys`` (the sort lies on every path to the return).
    None when some returned value is not the result of a sort."""
    g = build_cfg(fi.node)
    keys: list[ast.expr | None] = []
    for r in g.returns():
        if r.ast.value is None:
            return None
        for leaf, chain in flows(fi, r, r.ast.value):
            if isinstance(leaf, ast.Call) and isinstance(leaf.func, ast.Name) and leaf.func.id == "sorted":
                keys.append(kwarg(leaf, "key"))
                continue
            # in-place sort of the returned local
            name = r.ast.value.id if isinstance(r.ast.value, ast.Name) else None
            sorts = [(n, c) for n in g.stmts() for c in node_calls(n) if isinstance(c.func, ast.Attribute) and c.func.attr == "sort" and isinstance(c.func.value, ast.Name) and c.func.value.id == name]
            if name is None or not sorts or not g.must_pass(g.entry, r.id, [n.id for n, _ in sorts]):
                return None
            keys += [kwarg(c, "key") for _, c in sorts]
    return keys


def loop_carried_defs(g: CFG, use: int, name: str) -> set[int]:
    """Definitions of ``name`` inside a ``for`` loop whose value can still be alive at node ``use`` in a LATER iteration: a path from the
    definition around the loop's back edge to the use on which the name is not assigned again (per-item state that is not re-initialised
    per item)."""
    back = set()
    inside: set[int] = set()
    for f in g.nodes:
        if f.kind != "for":
            continue
        body = g.reachable([m for m, lab in g.succ[f.id] if lab == "iter"], blocked=[f.id])
        if use not in body:
            continue
        inside |= body
        back |= {(a, f.id, lab) for a, lab in g.pred[f.id] if a in body}
    if not back:
        return set()
    sites = set(_def_nodes(g).get(name, {}))
    out = set()
    for d in sites & inside:
        seen = set()
        stack = [(m, (d, m, lab) in back) for m, lab in g.succ[d] if lab != "exc"]
        while stack:
            n, crossed = stack.pop()
            if (n, crossed) in seen:
                continue
            seen.add((n, crossed))
            if n == use and crossed:
                out.add(d)
                break
            if n in sites:
                continue  # assigned again: the earlier value is dead from here on
            for m, lab in g.succ[n]:
                stack.append((m, crossed or (n, m, lab) in back))
    return out


def predicate_table(fi: FuncInfo, atoms: list[dict[str, bool]], raw: bool = True) -> dict[tuple[bool, ...], bool] | None:
    """Truth table of "the function can return a truthy value" over named atomic facts (see ``reach_table``): every ``return E`` is read as
    ``if E: return True / else: return False``, so that a boolean expression returned directly and the same decision written as branches
    are one and the same.  Facts not listed stay open (the entry is True when SOME outcome of the open tests returns truthy)."""
    import copy

    fn = copy.deepcopy(fi.node)
    for attr in ("_xsa_cfg", "_xsa_asrc", "_xsa_single_defs"):
        if hasattr(fn, attr):
            delattr(fn, attr)
    trues: list[ast.Return] = []

    class T(ast.NodeTransformer):
        def visit_FunctionDef(self, n):
            if n is fn:
                self.generic_visit(n)
            return n

        visit_AsyncFunctionDef = visit_FunctionDef

        def visit_Lambda(self, n):
            return n

        def visit_Return(self, r: ast.Return):
            v = r.value
            if v is None or (isinstance(v, ast.Constant) and not v.value):
                return r
            t = ast.copy_location(ast.Return(value=ast.copy_location(ast.Constant(value=True), r)), r)
            trues.append(t)
            if isinstance(v, ast.Constant):
                return t
            f = ast.copy_location(ast.Return(value=ast.copy_location(ast.Constant(value=False), r)), r)
            return ast.copy_location(ast.If(test=v, body=[t], orelse=[f]), r)

    T().visit(fn)
    ast.fix_missing_locations(fn)
    pfi = FuncInfo(qual=fi.qual, module=fi.module, cls=fi.cls, node=fn, name=fi.name)
    out: dict[tuple[bool, ...], bool] | None = None
    for t in trues:
        tab = reach_table(pfi, t, atoms, raw=raw)
        if tab is None:
            return None
        out = tab if out is None else {k: out[k] or tab[k] for k in tab}
    if out is None:
        import itertools

        out = {k: False for k in itertools.product((True, False), repeat=len(atoms))}
    return out


def tests_raw(fi: FuncInfo, *texts: str, suffix: bool = False) -> list[Node]:
    """Atomic tests whose source text - with alias temporaries expanded, in any spelling of the same polarity - is one of ``texts``
    (``suffix=True``: ends with one of them).  Spaces are ignored."""
    g = build_cfg(fi.node)
    want = [t.replace(" ", "") for t in texts]
    out = []
    for t in g.nodes:
        if t.kind != "test" or t.ast is None:
            continue
        fs = {f.replace(" ", "") for f, same in polar_forms(fi, t, t.ast, anon=False) if same}
        if any((f.endswith(w) if suffix else f == w) for f in fs for w in want):
            out.append(t)
    return out


from . import cfg as _cfg_mod  # noqa: E402

_cfg_mod.PATH_SENSITIVE_REACH = reach_env


def def_reaches_use(g: CFG, d: int, use: int, name: str, blocked_edges: Iterable = ()) -> bool:
    """The value assigned to ``name`` at node ``d`` can still be the value of ``name`` at node ``use``: there is a path from d to use on
    which the name is not assigned again and which takes none of ``blocked_edges``."""
    be = set(blocked_edges)
    sites = set(_def_nodes(g).get(name, {}))
    seen = set()
    stack = [m for m, lab in g.succ[d] if (d, m, lab) not in be]
    while stack:
        n = stack.pop()
        if n in seen:
            continue
        seen.add(n)
        if n == use:
            return True
        if n in sites:
            continue
        stack += [m for m, lab in g.succ[n] if (n, m, lab) not in be]
    return False


def value_sources(fi: FuncInfo, at: Node, e: ast.expr | None, depth: int = 5) -> list[ast.expr]:
    """Everything a value is computed from: the flow leaves of every local read in ``e``, and - where such a leaf is itself an expression
    over locals (``first + offset``) - the leaves of those, transitively.  Calls and attribute reads are kept as they are."""
    out: list[ast.expr] = []
    if e is None or depth <= 0:
        return out
    seen: set[int] = set()

    g = build_cfg(fi.node)

    def enumerate_start(name: str) -> list[tuple[ast.expr, Node]]:
        """`for i, x in enumerate(xs, start)`: the counter i is computed from `start`."""
        found = []
        for l in g.nodes:
            if l.kind == "for" and isinstance(l.ast.target, ast.Tuple) and l.ast.target.elts and isinstance(l.ast.target.elts[0], ast.Name) and l.ast.target.elts[0].id == name:
                it = l.ast.iter
                if isinstance(it, ast.Call) and isinstance(it.func, ast.Name) and it.func.id == "enumerate":
                    st = it.args[1] if len(it.args) > 1 else kwarg(it, "start")
                    if st is not None:
                        found.append((st, l))
                # `for i, x in zip(itertools.count(start), xs)` (the counter possibly named first): the same counter
                if isinstance(it, ast.Call) and isinstance(it.func, ast.Name) and it.func.id == "zip" and it.args:
                    for cnt in leaves_at(fi, l, it.args[0]):
                        if isinstance(cnt, ast.Call) and ast.unparse(cnt.func) in ("count", "itertools.count") and cnt.args:
                            found.append((cnt.args[0], l))
        return found

    def visit(expr: ast.expr, where: Node, d: int) -> None:
        for nm in [x for x in ast.walk(expr) if isinstance(x, ast.Name) and isinstance(x.ctx, ast.Load)]:
            for leaf, chain in flows(fi, where, nm):
                if isinstance(leaf, ast.Name) and not chain and d > 0:
                    for st, l in enumerate_start(leaf.id):
                        if id(st) not in seen:
                            seen.add(id(st))
                            out.append(st)
                            visit(st, l, d - 1)
                if id(leaf) in seen:
                    continue
                seen.add(id(leaf))
                out.append(leaf)
                if d > 0 and not isinstance(leaf, ast.Name) and not isinstance(leaf, ast.Call):
                    visit(leaf, chain[-1] if chain else where, d - 1)
                elif d > 0 and isinstance(leaf, ast.Call):
                    for a in [*leaf.args, *[k.value for k in leaf.keywords]]:
                        pass  # arguments of a call are not part of the value's identity

    visit(e, at, depth)
    return out


def keyed_values(fi: FuncInfo, key: str) -> list[tuple[Node, ast.expr]]:
    """Every value a function stores under the constant mapping key ``key``: entries of dict displays, item assignments
    ``m["key"] = v``, ``dict(key=v)`` / ``m.update(key=v)`` keywords.  (CFG node, value expression)."""
    g = build_cfg(fi.node)
    out: list[tuple[Node, ast.expr]] = []
    for n in g.stmts():
        if n.ast is None or n.kind not in ("stmt",):
            continue
        st = n.ast
        for x in [st, *walk_no_nested(st)]:
            if isinstance(x, ast.Dict):
                out += [(n, v) for k, v in zip(x.keys, x.values) if isinstance(k, ast.Constant) and k.value == key]
            elif isinstance(x, ast.Call) and ((isinstance(x.func, ast.Name) and x.func.id == "dict") or (isinstance(x.func, ast.Attribute) and x.func.attr == "update")):
                out += [(n, k.value) for k in x.keywords if k.arg == key]
        if isinstance(st, ast.Assign):
            for t in st.targets:
                if isinstance(t, ast.Subscript) and isinstance(t.slice, ast.Constant) and t.slice.value == key:
                    out.append((n, st.value))
    return out
