class ClickException(Exception):
    def __init__(self, message=""):
        super().__init__(message); self.message = message
def echo(*a, **k): pass
def __getattr__(name):
    def deco(*a, **k):
        def w(f): return f
        return w
    return deco
