def toposort_flatten(data, sort=True):
    data = {k: set(v) for k, v in data.items()}
    out = []
    extra = set().union(*data.values()) - set(data) if data else set()
    data.update({e: set() for e in extra})
    while data:
        ready = sorted(k for k, v in data.items() if not v) if sort else [k for k, v in data.items() if not v]
        if not ready: raise ValueError("cycle")
        out.extend(ready)
        data = {k: v - set(ready) for k, v in data.items() if k not in ready}
    return out
