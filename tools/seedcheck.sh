#!/bin/sh
# usage: tools/seedcheck.sh <patch.diff> [PID ...]   - apply a seeded change to /repo, run the checks, undo it.
patch="$1"; shift
cd /repo || exit 2
if [ -n "$(git status --porcelain --untracked-files=no)" ]; then echo "/repo not clean"; exit 2; fi
git apply "$patch" || { echo "patch does not apply"; exit 2; }
pids="$*"
[ -n "$pids" ] || pids=$(python3 -c "import json;print(' '.join(c['property_id'] for c in json.load(open('/verif/MANIFEST.json'))['checks']))")
for p in $pids; do
  out=$(cd /verif && ./check "$p" --no-evidence 2>&1); code=$?
  echo "== $p exit=$code"
  echo "$out" | grep -v "^VIOLATION" | grep -v "^\[" | cut -c1-260 | head -8
done
git checkout -- . 
