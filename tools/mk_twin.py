#!/venv/bin/python
"""Developer aid: materialise a behaviour-preserving twin of /repo (rename-locals | negate-if | unparse) in a directory.
usage: mk_twin.py <kind> <dest-dir>   then   ./check Cxx --repo <dest-dir> --no-evidence ; rm -rf <dest-dir>"""
import ast, shutil, sys
from pathlib import Path
sys.path.insert(0, "/verif")
from xsa import selftest
kind, dest = sys.argv[1], Path(sys.argv[2])
if dest.exists():
    shutil.rmtree(dest)
tmp = selftest.make_copy(Path("/repo"))
shutil.move(str(tmp), str(dest))
for p in sorted((dest / "xsdata").rglob("*.py")):
    tree = ast.parse(p.read_text())
    T = {"rename-locals": selftest._RenameLocals, "negate-if": selftest._NegateIf, "unparse": ast.NodeTransformer}[kind]
    p.write_text(ast.unparse(ast.fix_missing_locations(T().visit(tree))) + "\n")
print(dest)
