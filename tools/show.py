#!/venv/bin/python
"""Developer aid: print the normalised view of a function.  usage: show.py <qual> [repo root | patch.diff]"""
import ast, os, shutil, subprocess, sys, tempfile
sys.path.insert(0, "/verif")
from xsa.model import Repo
qual = sys.argv[1]
root = sys.argv[2] if len(sys.argv) > 2 else "/repo"
tmp = None
if root.endswith(".diff"):
    tmp = tempfile.mkdtemp(prefix="xsa-show-")
    shutil.copytree("/repo/xsdata", tmp + "/xsdata")
    subprocess.run(["git", "apply", "--unsafe-paths", "--directory", tmp, os.path.abspath(root)], check=True, cwd=tmp)
    root = tmp
try:
    repo = Repo(root)
    fi = repo.func(qual)
    print(ast.unparse(fi.node))
finally:
    if tmp:
        shutil.rmtree(tmp)
