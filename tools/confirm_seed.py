#!/usr/bin/env python3
"""Confirm a seeded change in a scratch worktree and file it under /verif/seeded/<id>/.

usage: confirm_seed.py <src_dir with patch.diff demo.py notes.md> <PID> <seed id> <worktree>
Checks: demo exits 0 on the clean worktree; patch applies; demo exits non-zero with it; the 263 baseline tests still pass.
"""
import json, os, re, shutil, subprocess, sys

src, pid, sid, wt = sys.argv[1:5]
def run(cmd, **kw):
    return subprocess.run(cmd, shell=True, capture_output=True, text=True, **kw)
assert run(f"git -C {wt} status --porcelain --untracked-files=no").stdout.strip() == "", "worktree not clean"
env = dict(os.environ, PYTHONPATH=wt)
r0 = run(f"cd {wt} && /venv/bin/python {src}/demo.py", env=env)
assert run(f"git -C {wt} apply {src}/patch.diff").returncode == 0, "patch does not apply"
try:
    r1 = run(f"cd {wt} && /venv/bin/python {src}/demo.py", env=env)
    t = run(f"cd {wt} && /venv/bin/python -m pytest -q -p no:cacheprovider --timeout=900 --continue-on-collection-errors 2>&1 | tail -1")
    compiled = run(f"cd {wt} && /venv/bin/python -m compileall -q xsdata")
finally:
    run(f"git -C {wt} checkout -- .")
tests = re.sub(r"\x1b\[[0-9;]*m", "", t.stdout.strip())
ok = r0.returncode == 0 and r1.returncode != 0 and "263 passed" in tests and compiled.returncode == 0
print(f"{sid}: clean demo exit={r0.returncode}, changed demo exit={r1.returncode}, tests: {tests}, compile={compiled.returncode} -> {'CONFIRMED' if ok else 'REJECTED'}")
if not ok:
    print(r0.stdout[-500:], r0.stderr[-500:], r1.stdout[-300:])
    sys.exit(1)
dst = f"/verif/seeded/{sid}"
os.makedirs(dst, exist_ok=True)
for f in ("patch.diff", "demo.py", "notes.md"):
    if os.path.exists(f"{src}/{f}"):
        shutil.copy(f"{src}/{f}", f"{dst}/{f}")
files = re.findall(r"^\+\+\+ b/(.*)$", open(f"{src}/patch.diff").read(), re.M)
meta = {
    "id": sid, "property": pid, "files": files,
    "needs_to_manifest": "see notes.md",
    "confirmed": {"demo_clean_exit": r0.returncode, "demo_changed_exit": r1.returncode, "baseline_tests": tests,
                  "commands": [f"cd <worktree> && PYTHONPATH=<worktree> /venv/bin/python demo.py", "git apply patch.diff", "pytest (baseline command)"]},
    "demo_output_changed": r1.stdout[-600:],
    "source": "independent sub-agent given only the property text and a scratch worktree",
}
json.dump(meta, open(f"{dst}/meta.json", "w"), indent=1)
