#!/venv/bin/python
"""Developer aid: which obligations are exercised (fired) by at least one mutant or seeded change?  Writes out/usage.json."""
import json, sys, shutil, subprocess
from concurrent.futures import ProcessPoolExecutor
from pathlib import Path
sys.path.insert(0, "/verif")
from xsa import selftest

PIDS = [c["property_id"] for c in json.load(open("/verif/MANIFEST.json"))["checks"]]

def fire(args):
    kind, pid, item = args
    root = selftest.make_copy(Path("/repo"))
    try:
        if kind == "mutant":
            edits = item.get("edits") or [{"file": item["file"], "old": item["old"], "new": item["new"]}]
            for e in edits:
                p = root / e["file"]; t = p.read_text()
                if t.count(e["old"]) != 1:
                    return (kind, pid, item["id"], None)
                p.write_text(t.replace(e["old"], e["new"]))
        else:
            r = subprocess.run(["git", "apply", "--include=xsdata/*", "--include=docs/*", item["patch"]], cwd=root, capture_output=True)
            if r.returncode != 0:
                return (kind, pid, item["id"], None)
        code, ev, out = selftest._run(pid, root)
        if code == 2:
            return (kind, pid, item["id"], ["ANALYSIS-ERROR " + str(ev.get("error"))[:100]])
        return (kind, pid, item["id"], [f"{v['rule']}|{v['instance']}" for v in ev["coverage"]["violations"]])
    finally:
        shutil.rmtree(root, ignore_errors=True)

jobs = []
for pid in PIDS:
    for m in selftest.load_mutants(pid):
        jobs.append(("mutant", pid, m))
    for s in selftest.load_seeds(pid):
        jobs.append(("seed", pid, s))
with ProcessPoolExecutor(16) as ex:
    res = list(ex.map(fire, jobs))
usage = {}
for kind, pid, iid, keys in res:
    for k in keys or []:
        usage.setdefault(pid, {}).setdefault(k, []).append(f"{kind}:{iid}")
json.dump(usage, open("/verif/out/usage.json", "w"), indent=1, sort_keys=True)
none = [(kind, pid, iid) for kind, pid, iid, keys in res if not keys]
print("items firing nothing:", none)
print({p: len(v) for p, v in usage.items()})
