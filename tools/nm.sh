#!/bin/sh
# Developer aid: base must be green, then the neutral matrix on the given patches with compact output.
cd /verif
bad=0
for p in C01 C02 C03 C04 C05 C06 C07 C08 C09 C10 C11 C12 C14 C15 C16 C17 C18 C19; do
  out=$(./check $p --no-evidence | grep -v "^KNOWN" | grep -v "violated=0" | cut -c1-200 | head -3)
  if [ -n "$out" ]; then echo "BASE BROKEN $p: $out"; bad=1; fi
done
[ $bad = 1 ] && exit 1
/venv/bin/python -B tools/neutral_matrix.py "$@" 2>&1 | grep -v "silent$" | cut -c1-${W:-300} | head -${N:-60}
