#!/bin/sh
# Developer aid: full robustness picture - selftests (mutants + seeds + format twins), semantic twins, neutral corpus. Compact output.
cd /verif
echo "== selftests"; /venv/bin/python -B -m xsa.selftest C01 C02 C03 C04 C05 C06 C07 C08 C09 C10 C11 C12 C14 C15 C16 C17 C18 C19 2>&1 | grep -v "^\[.*0 failed" | cut -c1-220
echo "== twins"; /venv/bin/python -B tools/twin_try.py rename-locals,negate-if 2>&1 | grep -v " same" | cut -c1-700
echo "== neutral"; /venv/bin/python -B tools/neutral_matrix.py 2>&1 | grep -v " silent$" | cut -c1-330
