#!/usr/bin/env python3
"""Run every filed seed (/verif/seeded/*/patch.diff) against the claimed checks; write seeded/matrix.json + RESULTS.md.

Applies each patch to /repo (git apply), runs the checks, and undoes it straight afterwards.
usage: seed_matrix.py [seed-id ...]
"""
import json, os, re, subprocess, sys

os.chdir("/verif")
claimed = [c["property_id"] for c in json.load(open("MANIFEST.json"))["checks"]]
import glob
registered = sorted({m.group(1) for f in glob.glob("xsa/rules/c*.py") for m in re.finditer(r'@rule\("(C\d+)\.', open(f).read())} |
                    {m.group(1) for f in glob.glob("xsa/rules/c*.py") for m in re.finditer(r'share\("(C\d+)"', open(f).read())})
seeds = sys.argv[1:] or sorted(d for d in os.listdir("seeded") if os.path.exists(f"seeded/{d}/patch.diff"))
assert subprocess.run("git -C /repo status --porcelain --untracked-files=no", shell=True, capture_output=True, text=True).stdout.strip() == "", "/repo not clean"
matrix = json.load(open("seeded/matrix.json")) if os.path.exists("seeded/matrix.json") else {}
for s in seeds:
    meta = json.load(open(f"seeded/{s}/meta.json"))
    assert subprocess.run(f"git -C /repo apply /verif/seeded/{s}/patch.diff", shell=True).returncode == 0, f"{s}: patch does not apply"
    row = {}
    try:
        for pid in registered:
            r = subprocess.run(f"./check {pid} --no-evidence", shell=True, capture_output=True, text=True)
            rules = sorted(set(re.findall(r"^  (C\d+\.R\d+) ", r.stdout, re.M)))
            if r.returncode != 0:
                row[pid] = {"exit": r.returncode, "rules": rules, "first": next((l.strip()[:200] for l in r.stdout.splitlines() if l.startswith("  C") or l.startswith("ANALYSIS")), "")}
    finally:
        subprocess.run("git -C /repo checkout -- .", shell=True)
    own = meta["property"]
    matrix[s] = {"property": own, "detected_by_own_check": own in row and row[own]["exit"] == 1, "fired": row}
    print(f"{s:50s} own={own} {'DETECTED' if matrix[s]['detected_by_own_check'] else 'missed  '} fired={ {k: v['rules'] or v['exit'] for k, v in row.items()} }")
json.dump(matrix, open("seeded/matrix.json", "w"), indent=1, sort_keys=True)
with open("seeded/RESULTS.md", "w") as f:
    f.write("# Seeded changes vs checks\n\nEach row: an independently written change that breaks the property while compiling and passing the 263 baseline tests "
            "(confirmed in a scratch worktree, see meta.json). `own` = the check of the property the change was written against; other firing checks are listed too.\n\n")
    f.write("| seed | property | own check | rules fired (all checks) |\n|---|---|---|---|\n")
    for s, m in sorted(matrix.items()):
        fired = "; ".join(f"{k}: {', '.join(v['rules']) or 'exit ' + str(v['exit'])}" for k, v in sorted(m["fired"].items())) or "-"
        f.write(f"| {s} | {m['property']} | {'detected' if m['detected_by_own_check'] else 'MISSED'} | {fired} |\n")
    det = sum(1 for m in matrix.values() if m["detected_by_own_check"])
    f.write(f"\n{det}/{len(matrix)} detected by the check of their own property.\n")
