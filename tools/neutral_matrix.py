#!/venv/bin/python
"""False-alarm corpus: run every claimed check on scratch copies of /repo with one behaviour-preserving patch applied each.

usage: neutral_matrix.py [patch.diff ...]   (default: /verif/neutral/*/*.diff)
Every non-zero exit is a false alarm (or an analysis error) of the checker - the patches keep behaviour unchanged.
"""
import glob, json, os, subprocess, sys, shutil
from concurrent.futures import ProcessPoolExecutor
from pathlib import Path

sys.path.insert(0, "/verif")
os.chdir("/verif")
PIDS = [c["property_id"] for c in json.load(open("MANIFEST.json"))["checks"]]
if os.environ.get("XSA_PIDS"):  # developer aid: restrict the matrix to some checks
    PIDS = [p for p in PIDS if p in os.environ["XSA_PIDS"].split()]


def one(patch: str) -> dict:
    from xsa import selftest
    root = selftest.make_copy(Path("/repo"))
    try:
        r = subprocess.run(["git", "apply", "--include=xsdata/*", "--include=docs/*", patch], cwd=root, capture_output=True, text=True)
        if r.returncode != 0:
            return {"patch": patch, "status": "does-not-apply", "why": r.stderr.strip()[:200]}
        fired = {}
        for pid in PIDS:
            code, ev, out = selftest._run(pid, root)
            if code != 0:
                fired[pid] = {"exit": code, "lines": [l.strip()[:260] for l in out.splitlines() if l.startswith("  C")][:6] or [str(ev.get("error"))[:260]]}
        return {"patch": patch, "status": "alarm" if fired else "silent", "fired": fired}
    finally:
        shutil.rmtree(root, ignore_errors=True)


if __name__ == "__main__":
    patches = [os.path.abspath(x) for x in sys.argv[1:]] or sorted(glob.glob("/verif/neutral/*/*.diff"))
    with ProcessPoolExecutor(max_workers=min(16, len(patches) or 1)) as ex:
        res = list(ex.map(one, patches))
    bad = 0
    for r in res:
        name = "/".join(r["patch"].split("/")[-2:])
        if r["status"] == "silent":
            print(f"{name:60s} silent")
        elif r["status"] == "does-not-apply":
            bad += 1
            print(f"{name:60s} DOES-NOT-APPLY {r['why']}")
        else:
            bad += 1
            print(f"{name:60s} FALSE-ALARM {sorted(r['fired'])}")
            for pid, f in r["fired"].items():
                for l in f["lines"]:
                    print(f"      {pid} exit={f['exit']} {l}")
    print(f"{len(res) - bad}/{len(res)} neutral patches silent")
    if not sys.argv[1:]:
        json.dump({"/".join(r["patch"].split("/")[-2:]): {"status": r["status"], "fired": sorted(r.get("fired", {}))} for r in res}, open("/verif/neutral/matrix.json", "w"), indent=1, sort_keys=True)
