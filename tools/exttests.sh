#!/bin/sh
# Developer aid (NOT a check): run the part of the upstream suite that needs click/toposort with tiny stubs,
# to regression-test "fix:" commits beyond the 263 baseline tests.
cd /repo && PYTHONPATH=/verif/tools/stubs /venv/bin/python -m pytest -q -p no:cacheprovider --continue-on-collection-errors "$@" 2>&1 | tail -5 | sed 's/\x1b\[[0-9;]*m//g'
