#!/venv/bin/python
"""Run every filed seed (/verif/seeded/*/patch.diff) against all claimed checks on scratch copies (in parallel; /repo is not touched) and
write seeded/matrix.json + seeded/RESULTS.md.  usage: seed_results.py [seed-id ...]   (default: all)"""
import json, os, re, sys
from concurrent.futures import ProcessPoolExecutor

sys.path.insert(0, "/verif")
sys.path.insert(0, "/verif/tools")
os.chdir("/verif")
from neutral_matrix import one  # noqa: E402


def main() -> int:
    seeds = sys.argv[1:] or sorted(d for d in os.listdir("seeded") if os.path.exists(f"seeded/{d}/patch.diff"))
    patches = [os.path.abspath(f"seeded/{s}/patch.diff") for s in seeds]
    with ProcessPoolExecutor(max_workers=16) as ex:
        res = list(ex.map(one, patches))
    matrix = json.load(open("seeded/matrix.json")) if os.path.exists("seeded/matrix.json") and sys.argv[1:] else {}
    bad = 0
    for s, r in zip(seeds, res):
        own = json.load(open(f"seeded/{s}/meta.json"))["property"]
        if r["status"] == "does-not-apply":
            print(f"{s:52s} DOES-NOT-APPLY {r['why']}")
            bad += 1
            continue
        fired = {pid: {"exit": f["exit"], "rules": sorted({m.group(1) for l in f["lines"] for m in [re.match(r"(C\d+\.R\d+) ", l)] if m})} for pid, f in r.get("fired", {}).items()}
        det = own in fired and fired[own]["exit"] == 1
        bad += 0 if det else 1
        matrix[s] = {"property": own, "detected_by_own_check": det, "fired": fired}
        print(f"{s:52s} own={own} {'DETECTED' if det else 'missed  '} { {k: v['rules'] or v['exit'] for k, v in fired.items()} }")
    json.dump(matrix, open("seeded/matrix.json", "w"), indent=1, sort_keys=True)
    with open("seeded/RESULTS.md", "w") as f:
        f.write("# Seeded changes vs checks\n\nEach row: an independently written change that breaks the property while compiling and passing the 263 baseline tests "
                "(confirmed in a scratch worktree, see meta.json). `own` = the check of the property the change was written against; other firing checks are listed too "
                "(up to six report lines per check are read, so the rule lists are not exhaustive).\n\n")
        f.write("| seed | property | own check | rules fired (all checks) |\n|---|---|---|---|\n")
        for s, m in sorted(matrix.items()):
            fired = "; ".join(f"{k}: {', '.join(v['rules']) or 'exit ' + str(v['exit'])}" for k, v in sorted(m["fired"].items())) or "-"
            f.write(f"| {s} | {m['property']} | {'detected' if m['detected_by_own_check'] else 'MISSED'} | {fired} |\n")
        det = sum(1 for m in matrix.values() if m["detected_by_own_check"])
        f.write(f"\n{det}/{len(matrix)} detected by the check of their own property.\n")
    return 1 if bad else 0


if __name__ == "__main__":
    sys.exit(main())
