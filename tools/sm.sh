#!/bin/sh
# Developer aid: which checks fire on seeded changes (scratch copies; /repo is not touched).  usage: sm.sh <seed id glob>...
cd /verif
ps=""
for s in "$@"; do for d in seeded/$s; do ps="$ps $d/patch.diff"; done; done
/venv/bin/python -B tools/neutral_matrix.py $ps 2>&1 | sed 's/FALSE-ALARM/FIRED/; s#/patch.diff##' | grep -v "neutral patches silent" | cut -c1-${W:-260}
