#!/venv/bin/python
"""Developer aid: obligations of a property that no mutant / seed exercises (from out/usage.json)."""
import json, sys
sys.path.insert(0, "/verif")
from xsa import cli, core
from xsa.model import Repo
cli.load_rules()
usage = json.load(open("/verif/out/usage.json"))
pid = sys.argv[1]
repo = Repo(None); ctx = core.Ctx(repo, "quick")
for rid, fn, tier, doc in core.RULES[pid]:
    ctx._rule = rid
    try:
        fn(ctx)
    except Exception as e:
        print("ERR", rid, e)
used = usage.get(pid, {})
seen = set()
for o in ctx.obligations:
    k = f"{o.rule}|{o.instance}"
    if k in seen: continue
    seen.add(k)
    print(("USED  " if k in used else "unused"), k[:170])
