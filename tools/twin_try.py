import sys
sys.path.insert(0,'/verif')
from xsa import selftest
from concurrent.futures import ProcessPoolExecutor
kinds=sys.argv[1].split(',')
pids=sys.argv[2:] or ["C01","C02","C03","C04","C05","C06","C07","C08","C09","C10","C11","C12","C14","C15","C16","C17","C18","C19"]
with ProcessPoolExecutor(16) as ex:
    futs=[(p,k,ex.submit(selftest.run_twin,(p,k,'/repo'))) for p in pids for k in kinds]
    for p,k,f in futs:
        r=f.result()
        print(p,k,r['status'],r.get('why','')[:1500])
