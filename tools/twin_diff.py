#!/venv/bin/python
"""Developer aid: diff the obligation lists of one property between /repo and a twin directory."""
import sys, io, contextlib
sys.path.insert(0, "/verif")
from xsa import cli, core
cli.load_rules()
pid, twin = sys.argv[1], sys.argv[2]
def obs(root):
    from xsa.model import Repo
    repo = Repo(root); ctx = core.Ctx(repo, "quick")
    for rid, fn, tier, doc in core.RULES[pid]:
        ctx._rule = rid
        try:
            fn(ctx)
        except Exception as e:
            print("ERR", rid, e)
    return {(o.rule, o.instance): o.ok for o in ctx.obligations}
a, b = obs(None), obs(twin)
for k in sorted(set(a) | set(b)):
    if a.get(k) != b.get(k):
        print(k[0], "|", k[1][:150], "| base:", a.get(k), "twin:", b.get(k))
