"""Source of MANIFEST.json (run gen_manifest.py after editing)."""

SOURCE_COMMITS: list[str] = []

NOTES = (
    "Technique family: static analysis only. Every check parses /repo's current working tree with Python's ast "
    "(plus the Jinja templates and docs) and never imports or executes xsdata. Claims are limited to named structural "
    "necessary conditions of each property (see DESIGN.md section 4 and each evidence file's 'decides' / 'not_decided'). "
    "Exit 2 + 'ANALYSIS-ERROR' means the checker could not analyse the tree (anchor vanished, instance floor missed), "
    "never a violation. Genuine defects recorded rather than repaired are in known_findings.json. Rules are phrased over a normalised "
    "view of each function (conditional expressions / match / walrus / tuple assignment normalised, private and newly extracted helpers "
    "inlined) with control-dependence, reaching-definition and value-flow queries - never over source fragments; the thorough tier replays "
    "mutants, 131 seeded property-breaking changes, four whole-package behaviour-preserving twins and 580 neutral refactorings (DESIGN.md section 6). "
    "Where a rule cannot recognise the form of a condition or argument list it abstains (recorded in the evidence notes), it does not alarm."
)

_STATIC_NOTE = (
    "Trusted base: Python's ast parser; the checker's own call resolution (class-hierarchy analysis over annotations; "
    "resolution statistics are in the evidence); CPython evaluation order. Decides the listed structural clauses, not the "
    "runtime behaviour quantified by the property."
)

CHECKS = {
    "C03": dict(
        text="Static discharge of the writer-side mechanism: event-grammar (Dyck) check over all CFG paths of the event "
        "generator, typestate pairing of the EventHandler stacks, declare-before-use ordering of prefix bindings, "
        "who-may-write discipline on prefix maps, dispatch totality, raise-family inclusion, user-prefix gate.",
        design_ref="DESIGN.md section 4 C03",
        note=_STATIC_NOTE + " Not decided: that names/namespaces/order equal an independent reading of the metadata; XMLGenerator/lxml internals.",
        technique="static analysis: CFG path enumeration (Dyck word check), must-pass-through/dominance, who-may-write call-graph rule, explicit-raise family",
    ),
    "C15": dict(
        text="Interprocedural may-raise (escape) analysis from every XML/JSON/dict parser entry point over the resolved call graph, with handler "
        "subtraction; the escaping exception classes must lie in the documented error family. Plus assert discipline, narrow control-flow "
        "try blocks, dict-shape validation of decoded JSON before typed use, loop-progress lint, sibling fall-back agreement.",
        design_ref="DESIGN.md section 4 C15",
        note=_STATIC_NOTE + " External raise table (xsa/exc.py) is the soundness boundary; implicit exceptions of primitive operations are modelled "
        "only by the shape rule; expat/lxml internals and running time are not decided.",
        technique="static analysis: interprocedural exception-escape (may-raise) fixpoint over a class-hierarchy call graph, CFG dominance for shape guards",
    ),
    "C06": dict(
        text="Static discharge of necessary conditions of exact date/time handling: validate-before-construct on all CFG paths of every "
        "from_string; integer kind of the timeline comparison key (three-point numeric lattice); scanner directive coverage and unpack arity; "
        "duration regex group agreement (regex AST); argument-name agreement of calendar components; range tables equal to the specification.",
        design_ref="DESIGN.md section 4 C06",
        note=_STATIC_NOTE + " Not decided: that every XSD-valid lexical form parses to the right components and prints back (value-level).",
        technique="static analysis: CFG must-pass-through, abstract numeric-kind inference, table/arity extraction, regex AST inspection, spec-table equality",
    ),
    "C05": dict(
        text="Static discharge of table-agreement and discipline clauses: registry coverage of every datatype's Python type, equality of the "
        "documented priority list with the sort table, strict-test coverage, per-converter may-raise inclusion in {ConverterError} (so the "
        "priority fall-through cannot be aborted), whitespace normalisation before every lexical sink (interprocedural raw-text taint).",
        design_ref="DESIGN.md section 4 C05",
        note=_STATIC_NOTE + " Not decided: XSD validity of printed spellings and value-level acceptance of every lexical form.",
        technique="static analysis: vocabulary/table extraction with doc cross-check, may-raise fixpoint per converter, def-use taint to lexical sinks",
    ),
    "C01": dict(
        text="Static discharge of writer/reader agreement clauses (necessary for any round trip): kind totality over XmlType across builder, metadata "
        "buckets, serializer iteration and parser lookups; agreement of conversion parameters on both directions; xsi:nil/xsi:type marker and wrapper "
        "symmetry; balanced event grammar; declare-before-use of prefixes.",
        design_ref="DESIGN.md section 4 C01",
        note=_STATIC_NOTE + " Not decided: equality of the reparsed object for all models x instances x configurations.",
        technique="static analysis: vocabulary/table agreement (set equality), effective-argument extraction at call sites, CFG control dependence, Dyck path check",
    ),
    "C10": dict(
        text="Static discharge: every strictness failure is control-dependent (with polarity) on its fail_on_* flag and the false branch continues to the "
        "tolerant behaviour; xsi exemption; SkipNode effect-freedom; def-use proof that the unconverted value is what parse_var returns on failure; "
        "flag liveness and strict candidate configs.",
        design_ref="DESIGN.md section 4 C10",
        note=_STATIC_NOTE + " Not decided: object equality after skipping arbitrary subtrees for all documents.",
        technique="static analysis: CFG control dependence with polarity (edge-removal reachability), effect (mutation) analysis, def-use",
    ),
    "C14": dict(
        text="Static discharge of the shared-state write discipline that history independence rests on: inventory of every mutation site of persistent "
        "objects, publish-after-compute, memo-key completeness and dependency invalidation, recorder isolation, purity of memoised functions, immutability "
        "of shared singletons and cached metadata, untouched caller arguments.",
        design_ref="DESIGN.md section 4 C14",
        note=_STATIC_NOTE + " One known finding (F13, memo key of XmlContext.build) is listed in known_findings.json. Not decided: call-by-call equality for all histories.",
        technique="static analysis: may-mutate site inventory with alias tracking, def-use flow from parameters to memo keys/values, who-may-write rules",
    ),
    "C19": dict(
        text="Static discharge that no structure shared between threads is observable half-built: every shared-state write site is an atomic publish of a value "
        "computed into locals (or a designated single-threaded writer), no inserting reads on defaultdict indexes, no mutation through aliases, no shared scratch.",
        design_ref="DESIGN.md section 4 C19",
        note=_STATIC_NOTE + " Atomicity of a single dict/list/attribute store (CPython) is the trusted base. Not decided: results under real interleavings; XML libraries' thread-safety.",
        technique="static analysis: shared-state write-pattern classification (publish vs in-place rebuild), alias analysis of shared containers, read-pattern checks",
    ),
    "C08": dict(
        text="Static discharge of backend agreement: MRO resolution of every writer-protocol method for the three writer backends (same function or "
        "whitespace-only decorator), normalised-AST sibling comparison of the two parser handlers' event pumps, effective-keyword check that every lxml "
        "parser drops comments and PIs, source-kind dispatch, single event generator, node protocol, copying of recorded attribute maps.",
        design_ref="DESIGN.md section 4 C08",
        note=_STATIC_NOTE + " Not decided: infoset identity / object equality for every document (XMLGenerator, lxml, expat behaviour).",
        technique="static analysis: class-hierarchy (MRO) resolution, sibling-implementation cross-check over normalised ASTs, effective keyword extraction, CFG must-pass",
    ),
    "C09": dict(
        text="Static discharge of infoset-only parsing conditions: raw-text taint to lexical sinks (whitespace), comment/PI options of both handlers, "
        "who-may-split-prefixes plus default-namespace lookup in the resolver, flow of the in-scope namespace map to every resolver and node, tail normalisation dominance.",
        design_ref="DESIGN.md section 4 C09",
        note=_STATIC_NOTE + " Not decided: invariance under every composition of rewrites (encodings, CDATA, entity handling are the XML libraries' behaviour).",
        technique="static analysis: interprocedural def-use taint, who-may-call rule, argument-flow checks at resolved call sites, CFG dominance",
    ),
    "C11": dict(
        text="Static discharge of generic-model completeness: field coverage of AnyElement / DerivedElement on parser and serializer, event order of generic elements, "
        "sibling agreement of node classes on attributes, whitespace-only text and tails, totality over wildcard namespace tokens.",
        design_ref="DESIGN.md section 4 C11",
        note=_STATIC_NOTE + " Not decided: preservation for every document (value-level).",
        technique="static analysis: vocabulary agreement (class fields vs call keywords vs attribute reads), CFG ordering of yields, sibling contradiction rule",
    ),
    "C04": dict(
        text="Static discharge of encoder/decoder agreement: abstract return-shape analysis of DictEncoder.encode, key-vocabulary agreement between encoder and "
        "decoder (wrapper nesting included), generic key sets derived from class fields, exact-type choice lookup, strict candidate configs, dict-shape guards.",
        design_ref="DESIGN.md section 4 C04",
        note=_STATIC_NOTE + " Not decided: equality after decode for all instances; best-class scoring outcomes.",
        technique="static analysis: return-shape abstraction with control dependence, vocabulary agreement, CFG dominance of isinstance guards",
    ),
    "C16": dict(
        text="Static discharge of DTD mapper dispatch and spec-table clauses: totality of every enum dispatch, branch-wise constant extraction equal to the XML 1.0 "
        "occurrence and attribute-default tables, attribute type codes, xmlns handling with a per-element fresh namespace map, truthy unique choice ids.",
        design_ref="DESIGN.md section 4 C16",
        note=_STATIC_NOTE + " Not decided: that DTD-valid documents round-trip through the generated classes (the generator cannot run here).",
        technique="static analysis: enum-dispatch exhaustiveness, branch-wise constant extraction vs specification table, pairing rule, freshness (alias) check",
    ),
    "C17": dict(
        text="Static discharge of the client wiring clause only (last sentence of the property): def-use wiring of Client.send, header table with copy of the caller's "
        "headers, payload type check, Config vocabulary, exact (non-substring) WSDL part selection, per-operation configuration copies, message-part prefixes resolved in the part's own scope.",
        design_ref="DESIGN.md section 4 C17",
        note=_STATIC_NOTE + " Explicitly NOT decided: generation of services/envelopes for arbitrary WSDL definitions.",
        technique="static analysis: def-use / single-assignment wiring check, CFG control dependence for the header table, vocabulary agreement",
    ),
    "C18": dict(
        text="Static discharge of emission clauses: type registration dominates every emission and recursion goes through repr_object; emitted heads are rooted at "
        "imported names (__qualname__ agreement, top-level component); delimiters per container kind; `import module` for module-qualified reprs; library "
        "__repr__s by __qualname__; no cross-call state.",
        design_ref="DESIGN.md section 4 C18",
        note=_STATIC_NOTE + " Not decided: equality of the evaluated object for all values (NaN, user-defined __repr__).",
        technique="static analysis: CFG dominance, def-use agreement between emission and import construction, totality over container kinds",
    ),
    "C12": dict(
        text="Static discharge of determinism by construction: discovery of every iteration/listing of hash-ordered sets in the generator scope with a frozen table of "
        "confirmed order-insensitive consumers and checked sanitizer conditions; identity-only discipline for id()-derived values incl. cleared/renumbered sequences; "
        "sorted source listings; clock/random/environment sources; scheduling of the renumbering; agreement of invocation routes.",
        design_ref="DESIGN.md section 4 C12",
        note=_STATIC_NOTE + " One known finding (F11: timestamp in the optional file header). Not decided: byte identity itself (the generator cannot run here).",
        technique="static analysis: unordered-iteration and id() taint to order-sensitive sinks, scheduling/ordering check on the pipeline table, who-may-emit rule",
    ),
    "C02": dict(
        text="Static discharge of stage-agreement clauses only (the generator cannot run here): field-metadata vocabulary agreement between generator, runtime builder and "
        "docs; restriction keys are Restrictions fields; tag->kind table; pipeline typestate (step-aware lookups, every handler scheduled once); namespace-"
        "inheritance agreement for attributes; transitive substitution groups; renumbering scheduled last; a member declaration's own prefix bindings are merged before its type names are resolved; the simple-content text carrier is never an XML attribute.",
        design_ref="DESIGN.md section 4 C02",
        note=_STATIC_NOTE + " Not decided: that schema-valid documents parse and re-serialize faithfully with generated classes; option independence.",
        technique="static analysis: three-way vocabulary agreement (code/code/docs), table totality, who-may-read rule on the class container, CFG must-pass",
    ),
    "C07": dict(
        text="Static discharge of discipline and template clauses: every raise is CodegenError and every assert a tabled narrowing; Jinja template taint - identifier "
        "positions pass a naming filter reaching safe_name, string-literal positions pass an escaping filter; reserved words cover the interpreter's keyword list; "
        "duplicate handling keyed like naming; renames rewrite every reference form.",
        design_ref="DESIGN.md section 4 C07",
        note=_STATIC_NOTE + " Known finding F10 (unescaped names/namespaces in class.jinja2/module.jinja2). Jinja2 semantics subset is trusted. Not decided: termination / importability for every input.",
        technique="static analysis: raise/assert discipline tables, template lexing with lexical-context classification and filter-chain taint, keyword-table comparison, def-use agreement",
    ),
}

NOT_APPLICABLE = [
    {"property_id": "C13", "reason": "Every clause concerns data-dependent results (type inference from sample values, merging of differing "
     "samples, sequence detection) of a pipeline whose behaviour is not visible in the shape of the code; no structural necessary condition "
     "strong enough to stand for the property exists, a static claim would be a proxy (DESIGN.md section 8)."},
]
for _pid in ["C01", "C02", "C04", "C05", "C06", "C07", "C08", "C09", "C10", "C11", "C12", "C14", "C15", "C16", "C17", "C18", "C19"]:
    if _pid not in CHECKS:
        NOT_APPLICABLE.append({"property_id": _pid, "reason": "check under construction in this session; not yet claimed (temporary entry)"})
