#!/usr/bin/env python3
"""Regenerate MANIFEST.json from the rule registry + the per-property notes in manifest_src.py."""
import json, sys
sys.path.insert(0, "/verif")
from manifest_src import CHECKS, NOT_APPLICABLE, NOTES, SOURCE_COMMITS

checks = []
for pid, c in sorted(CHECKS.items()):
    checks.append({
        "property_id": pid,
        "quick_cmd": f"./check {pid} --tier quick",
        "thorough_cmd": f"./check {pid} --tier thorough",
        "evidence_file": f"/verif/evidence/{pid}.json",
        "replay_cmd_template": "./check --replay {path}",
        "engine": "xsa",
        "level_claimed": {"category": "other", "text": c["text"], "design_ref": c["design_ref"]},
        "level_note": c["note"],
        "technique": c["technique"],
    })
manifest = {
    "version": 1,
    "setup_cmd": "/venv/bin/python -B -c \"import sys; sys.path.insert(0, '/verif'); import xsa.cli; xsa.cli.load_rules(); print('xsa ready')\"",
    "hooks": {
        "guard": "XSDATA_VERIF",
        "enable": "none needed: the checks are static (they parse /repo's working tree and never import or run it); no hook commits exist",
        "baseline_off_cmd": "cd /repo && /venv/bin/python -m pytest -ra -q -p no:cacheprovider --timeout=900 --continue-on-collection-errors",
        "source_commits": SOURCE_COMMITS,
        "add_only": True,
    },
    "engines": [{
        "name": "xsa", "path": "/verif/xsa", "serves_properties": sorted(CHECKS),
        "kind_free_text": "repository-specific static analysis over Python ast: class-hierarchy call resolution, statement CFG with atomised conditions, "
        "interprocedural may-raise / may-mutate sets, vocabulary (table) extraction, Jinja template lexing; stdlib only",
    }],
    "checks": checks,
    "notes": NOTES,
    "not_applicable": NOT_APPLICABLE,
}
json.dump(manifest, open("/verif/MANIFEST.json", "w"), indent=1)
print("wrote MANIFEST.json with", len(checks), "checks")
