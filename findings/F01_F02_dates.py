"""F1 (C06.R1): XmlDate.from_string accepts strings that denote no calendar date.
F2 (C06.R2): XmlDateTime / XmlTime ordering uses a float 'duration' built from average month/year lengths.

Run: /venv/bin/python findings/F01_F02_dates.py   (exit 1 = defect present)
"""
import sys

from xsdata.models.datatype import XmlDate, XmlDateTime, XmlTime

bad = 0
for s in ("2021-02-30", "2021-13-45", "2021-00-10", "2023-02-29"):
    try:
        v = XmlDate.from_string(s)
        print("F1 accepted", s, "->", repr(v))
        bad += 1
    except ValueError as exc:
        print("F1 rejected", s, exc)
print("leap day ok:", XmlDate.from_string("2024-02-29"))

a, b = XmlDateTime(2000, 12, 31, 12, 0, 0), XmlDateTime(2001, 1, 1, 0, 0, 0)
print("F2 2000-12-31T12:00 > 2001-01-01T00:00 :", a > b)
bad += a > b
c, d = XmlDateTime(2001, 1, 1, 0, 0, 0, 1), XmlDateTime(2001, 1, 1, 0, 0, 0, 2)
print("F2 1ns apart equal:", c == d, " lt:", c < d)
bad += (c == d) or not (c < d)
e, f = XmlDateTime(2001, 1, 31, 0, 0, 0), XmlDateTime(2001, 2, 1, 0, 0, 0)
print("F2 jan31 < feb1:", e < f)
bad += not (e < f)
# same instant in two zones
g, h = XmlDateTime(2001, 1, 1, 12, 0, 0, 0, 120), XmlDateTime(2001, 1, 1, 10, 0, 0, 0, 0)
print("F2 12:00+02:00 == 10:00Z:", g == h)
bad += not (g == h)
t1, t2 = XmlTime(10, 0, 0, 1), XmlTime(10, 0, 0, 2)
print("F2 time 1ns apart lt:", t1 < t2, "eq:", t1 == t2)
bad += (t1 == t2) or not (t1 < t2)
y1, y2 = XmlDateTime(-1, 12, 31, 0, 0, 0), XmlDateTime(1, 1, 1, 0, 0, 0)
print("F2 BCE < CE:", y1 < y2)
bad += not (y1 < y2)
sys.exit(1 if bad else 0)
