"""F4 (C15.R1): ElementNode.bind lets the TypeError of the class constructor escape (missing required field).

Run: /venv/bin/python findings/F04_missing_required.py   (exit 1 = defect present)
"""
import sys
from dataclasses import dataclass, field

from xsdata.exceptions import ConverterError, ParserError, XmlContextError
from xsdata.formats.dataclass.parsers import XmlParser
from xsdata.formats.dataclass.parsers.handlers import XmlEventHandler

try:
    from xsdata.formats.dataclass.parsers.handlers import LxmlEventHandler
except ImportError:  # pragma: no cover
    LxmlEventHandler = None


@dataclass
class A:
    class Meta:
        namespace = "urn:a"

    x: int = field(metadata={"type": "Element"})


bad = 0
for handler in filter(None, (XmlEventHandler, LxmlEventHandler)):
    try:
        XmlParser(handler=handler).from_string('<A xmlns="urn:a"/>', A)
        print(handler.__name__, "returned an object?!")
        bad += 1
    except (ParserError, ConverterError, XmlContextError) as exc:
        print(handler.__name__, "documented:", type(exc).__name__, exc)
    except Exception as exc:  # noqa: BLE001
        print(handler.__name__, "LEAKED", type(exc).__name__, exc)
        bad += 1
sys.exit(1 if bad else 0)
