"""F6 (C08.R3 / C09.R2): the lxml handler keeps processing instructions (and, on the XInclude path, comments) in the tree,
so element.text ends at the PI/comment: the two handlers produce different objects for the same document.

Run: /venv/bin/python findings/F06_lxml_pis_comments.py   (exit 1 = defect present)
"""
import os
import sys
import tempfile
from dataclasses import dataclass, field
from typing import Optional

from xsdata.formats.dataclass.parsers import XmlParser
from xsdata.formats.dataclass.parsers.config import ParserConfig
from xsdata.formats.dataclass.parsers.handlers import LxmlEventHandler, XmlEventHandler


@dataclass
class R:
    v: Optional[str] = field(default=None, metadata={"type": "Element"})


doc = b"<R><v>foo<?pi x?>bar<!--c-->baz</v></R>"
bad = 0
res = {h.__name__: XmlParser(handler=h).from_bytes(doc, R) for h in (XmlEventHandler, LxmlEventHandler)}
print("stream :", res)
bad += res["XmlEventHandler"] != res["LxmlEventHandler"]
with tempfile.TemporaryDirectory() as d:
    p = os.path.join(d, "doc.xml")
    open(p, "wb").write(doc)
    cfg = ParserConfig(process_xinclude=True)
    res = {h.__name__: XmlParser(handler=h, config=cfg).parse(p, R) for h in (XmlEventHandler, LxmlEventHandler)}
print("xinclude:", res)
bad += res["XmlEventHandler"] != res["LxmlEventHandler"]
sys.exit(1 if bad else 0)
