"""F16 (C15.R6): StandardNode.bind passes '' to a bytes wrapper for an empty xsi:type'd binary element.
F15 (C11.R6): StandardNode.bind drops the tail text of an xsi:type'd primitive inside mixed content.

Run: /venv/bin/python findings/F16_empty_hexbinary.py   (exit 1 = defect present)
"""
import sys
from dataclasses import dataclass, field
from typing import List

from xsdata.exceptions import ConverterError, ParserError, XmlContextError
from xsdata.formats.dataclass.parsers import XmlParser
from xsdata.formats.dataclass.serializers import XmlSerializer


@dataclass
class W:
    content: List[object] = field(default_factory=list, metadata={"type": "Wildcard", "namespace": "##any", "mixed": True})


XS = 'xmlns:xs="http://www.w3.org/2001/XMLSchema" xmlns:xsi="http://www.w3.org/2001/XMLSchema-instance"'
bad = 0
try:
    obj = XmlParser().from_string(f'<W {XS}><v xsi:type="xs:hexBinary"/></W>', W)
    print("empty hexBinary:", obj)
except (ParserError, ConverterError, XmlContextError) as exc:
    print("empty hexBinary: documented", type(exc).__name__, exc)
except Exception as exc:  # noqa: BLE001
    print("empty hexBinary: LEAKED", type(exc).__name__, exc)
    bad += 1

obj = XmlParser().from_string(f'<W {XS}>a<b xsi:type="xs:int">1</b> tail1 <c>2</c> tail2 </W>', W)
print("mixed:", obj.content)
flat = [x for x in obj.content if isinstance(x, str)]
if " tail1 " not in flat:
    print("tail after xsi:type'd primitive LOST")
    bad += 1
print(XmlSerializer().render(obj))
sys.exit(1 if bad else 0)
