"""F14 (C19.R1): XmlContext.build_xsi_cache clears the shared index and refills it in place.

A forced interleaving of three threads over the *unmodified* library code (pause points are imposed
with sys.settrace on one thread; no code is patched):

  C  passes the "module count changed" check, is paused before it touches the index
  A  rebuilds completely and stores sys_modules        (index complete, marker valid)
  C  resumes, runs up to its call of get_builder()     (old code: the index has just been cleared)
  B  needs no rebuild (marker valid) and looks a qname up -> must see the class

Run: /venv/bin/python findings/F14_xsi_cache_race.py   (exit 1 = defect present)
"""
import sys
import threading
from dataclasses import dataclass

from xsdata.formats.dataclass.context import XmlContext


@dataclass
class RaceModel:
    class Meta:
        name = "race-model"
        namespace = "urn:race"

    x: int = 0


QNAME = "{urn:race}race-model"
ctx = XmlContext()
alone = [c.__name__ for c in XmlContext().find_types(QNAME)]

at_pause1, go1, at_pause2, go2 = (threading.Event() for _ in range(4))
code = XmlContext.build_xsi_cache.__code__
builder_code = XmlContext.get_builder.__code__
import ast, inspect, textwrap
_src = ast.parse(textwrap.dedent(inspect.getsource(XmlContext.build_xsi_cache)))
RETURN_LINE = code.co_firstlineno - 1 + next(n.lineno for n in ast.walk(_src) if isinstance(n, ast.Return))


def tracer(frame, event, arg):
    if frame.f_code is builder_code and event == "call" and not at_pause2.is_set():
        at_pause2.set()
        go2.wait(10)
        return None
    if frame.f_code is not code:
        return None

    def local(frame, event, arg):
        # first statement after the early "nothing changed" return
        if event == "line" and frame.f_lineno > RETURN_LINE and not at_pause1.is_set():
            at_pause1.set()
            go1.wait(10)
        return local

    return local


results = {}


def run_c():
    sys.settrace(tracer)
    try:
        results["C"] = [c.__name__ for c in ctx.find_types(QNAME)]
    finally:
        sys.settrace(None)


tc = threading.Thread(target=run_c)
tc.start()
assert at_pause1.wait(10), "C did not reach pause point 1"
results["A"] = [c.__name__ for c in ctx.find_types(QNAME)]  # full rebuild, marker stored
go1.set()
assert at_pause2.wait(10), "C did not reach pause point 2"
results["B"] = [c.__name__ for c in ctx.find_types(QNAME)]  # no rebuild needed
go2.set()
tc.join(10)
print("alone:", alone, "interleaved:", results)
bad = results["B"] != alone or results["A"] != alone or results.get("C") != alone
print("HALF-BUILT INDEX OBSERVED" if bad else "ok")
sys.exit(1 if bad else 0)
