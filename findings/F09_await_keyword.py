"""F9 (C07.R4): `await` is missing from text.stop_words, so a field / class named `await` is generated verbatim.

Run: PYTHONPATH=/verif/tools/stubs /venv/bin/python findings/F09_await_keyword.py   (exit 1 = defect present)
"""
import keyword
import sys
import types

sys.modules.setdefault("jinja2", types.SimpleNamespace(Environment=object, FileSystemLoader=object))
from xsdata.formats.dataclass.filters import Filters
from xsdata.models.config import GeneratorConfig

f = Filters(GeneratorConfig())
bad = 0
for kw in keyword.kwlist:
    name = f.field_name(kw, "Root")
    src = f"class Root:\n    {name}: int = 1\n"
    try:
        compile(src, "<generated>", "exec")
    except SyntaxError as exc:
        print(f"field named {kw!r} is generated as {name!r}: {exc.msg}")
        bad += 1
print("keywords checked:", len(keyword.kwlist), "broken:", bad)
sys.exit(1 if bad else 0)
