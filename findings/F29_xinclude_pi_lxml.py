"""F29 (C09.R2 / C08.R3): with the lxml handler and process_xinclude=True, comments and processing instructions inside an
*included* document survive (libxml2 parses xi:include targets with its default options, not with the remove_comments /
remove_pis options of the outer parser); iterwalk never yields them, so the text after them (their tail) is lost:
<title>Hello<?hint keep?> World</title> binds as 'Hello'.  The native handler binds 'Hello World'.
exit 1 = defect present, exit 0 = repaired."""
import os, sys, tempfile
from dataclasses import dataclass, field
from typing import List

from xsdata.formats.dataclass.parsers import XmlParser
from xsdata.formats.dataclass.parsers.config import ParserConfig
from xsdata.formats.dataclass.parsers.handlers import LxmlEventHandler, XmlEventHandler


@dataclass
class Item:
    class Meta:
        name = "item"
    code: int = field(metadata={"type": "Attribute"})
    title: str = field(metadata={"type": "Element"})


@dataclass
class Doc:
    class Meta:
        name = "doc"
    item: List[Item] = field(default_factory=list, metadata={"type": "Element"})


d = tempfile.mkdtemp(prefix="f29-")
open(os.path.join(d, "part.xml"), "w").write('<item code="1"><title>Hello<?hint keep?> World<!-- c -->!</title></item>')
main = os.path.join(d, "main.xml")
open(main, "w").write('<doc xmlns:xi="http://www.w3.org/2001/XInclude"><xi:include href="part.xml"/></doc>')
res = {}
for h in (LxmlEventHandler, XmlEventHandler):
    res[h.__name__] = XmlParser(config=ParserConfig(process_xinclude=True, base_url=main), handler=h).parse(main, Doc)
    print(h.__name__, res[h.__name__])
ok = res["LxmlEventHandler"] == res["XmlEventHandler"] and res["XmlEventHandler"].item[0].title == "Hello World!"
print("repaired" if ok else "DEFECT: a PI / comment inside an included document changed the parsed object (lxml handler)")
sys.exit(0 if ok else 1)
