"""F17 (C03.R9): clean_prefixes admits reserved and non-NCName prefixes from the caller's ns_map.

Run: /venv/bin/python findings/F17_user_prefixes.py   (exit 1 = defect present)
"""
import sys
from dataclasses import dataclass, field
from xml.etree import ElementTree as ET

from xsdata.exceptions import SerializerError, XmlWriterError
from xsdata.formats.dataclass.serializers import XmlSerializer
from xsdata.formats.dataclass.serializers.writers import XmlEventWriter

try:
    from xsdata.formats.dataclass.serializers.writers import LxmlEventWriter
except ImportError:  # pragma: no cover
    LxmlEventWriter = None


@dataclass
class A:
    class Meta:
        namespace = "urn:a"

    v: str = field(default="x", metadata={"type": "Element"})


XML = "http://www.w3.org/XML/1998/namespace"
maps = [{"xmlns": "urn:a"}, {"xml": "urn:a"}, {"1x": "urn:a"}, {"a b": "urn:a"}, {"p": XML}, {"xml": XML},
        {"q": "http://www.w3.org/2000/xmlns/"}, {"a:b": "urn:a"}]
bad = 0
for writer in filter(None, (XmlEventWriter, LxmlEventWriter)):
    for m in maps:
        try:
            xml = XmlSerializer(writer=writer).render(A(), ns_map=dict(m))
        except (SerializerError, XmlWriterError) as exc:
            print(writer.__name__, m, "documented error", exc)
            continue
        except Exception as exc:  # noqa: BLE001
            print(writer.__name__, m, "LEAKED", type(exc).__name__, exc)
            bad += 1
            continue
        try:
            root = ET.fromstring(xml)
            ok = root.tag == "{urn:a}A" and root[0].tag == "{urn:a}v"
        except ET.ParseError as exc:
            ok = False
            xml += f"   <- {exc}"
        # expat does not enforce the reserved-prefix constraints of Namespaces in XML; check them textually
        if 'xmlns:xmlns=' in xml or ('xmlns:xml=' in xml and f'xmlns:xml="{XML}"' not in xml) or (f'="{XML}"' in xml and f'xmlns:xml="{XML}"' not in xml) \
                or '="http://www.w3.org/2000/xmlns/"' in xml:
            ok = False
        print(writer.__name__, m, "ok" if ok else "ILL-FORMED", xml.split("\n", 1)[-1].strip()[:120])
        bad += not ok
sys.exit(1 if bad else 0)
