"""F12 (C03.R8): text / attribute values with characters outside the XML 1.0 Char production are written as-is.

The native writer emits a document no XML parser accepts; the lxml writer leaks a bare ValueError (not a serializer error).
A carriage return is written raw by the native writer and is lost on re-parse (line-end normalisation).

Run: /venv/bin/python findings/F12_illegal_characters.py   (exit 1 = defect present)
"""
import sys
from dataclasses import dataclass, field
from xml.etree import ElementTree as ET

from xsdata.exceptions import SerializerError, XmlWriterError
from xsdata.formats.dataclass.parsers import XmlParser
from xsdata.formats.dataclass.serializers import XmlSerializer
from xsdata.formats.dataclass.serializers.writers import XmlEventWriter

try:
    from xsdata.formats.dataclass.serializers.writers import LxmlEventWriter
except ImportError:  # pragma: no cover
    LxmlEventWriter = None


@dataclass
class T:
    v: str = field(default="", metadata={"type": "Element"})
    a: str = field(default="", metadata={"type": "Attribute"})


bad = 0
for writer in filter(None, (XmlEventWriter, LxmlEventWriter)):
    for obj in (T(v="a\x01b"), T(a="a\x0bb"), T(v="a\rb")):
        try:
            xml = XmlSerializer(writer=writer).render(obj)
        except (SerializerError, XmlWriterError) as exc:
            print(writer.__name__, repr(obj), "documented error", exc)
            continue
        except Exception as exc:  # noqa: BLE001
            print(writer.__name__, repr(obj), "LEAKED", type(exc).__name__, str(exc)[:60])
            bad += 1
            continue
        try:
            ET.fromstring(xml)
            back = XmlParser().from_string(xml, T)
            ok = back == obj
            print(writer.__name__, repr(obj), "round-trips" if ok else f"CHANGED to {back!r}")
            bad += not ok
        except ET.ParseError as exc:
            print(writer.__name__, repr(obj), "NOT WELL-FORMED:", exc)
            bad += 1
sys.exit(1 if bad else 0)
