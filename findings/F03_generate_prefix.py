"""F3 (C03.R4): generate_prefix overwrites an existing binding of the prefix it invents.

Run: /venv/bin/python findings/F03_generate_prefix.py   (exit 1 = defect present)
"""
import sys
from dataclasses import dataclass, field
from xml.etree import ElementTree as ET

from xsdata.formats.dataclass.serializers import XmlSerializer
from xsdata.formats.dataclass.serializers.writers import XmlEventWriter

try:
    from xsdata.formats.dataclass.serializers.writers import LxmlEventWriter
except ImportError:  # pragma: no cover
    LxmlEventWriter = None


@dataclass
class Child:
    class Meta:
        namespace = "urn:child"

    v: str = field(default="x", metadata={"type": "Element", "namespace": "urn:child"})


@dataclass
class Root:
    class Meta:
        namespace = "urn:root"

    a: str = field(default="1", metadata={"type": "Attribute", "namespace": "urn:attr"})
    c: Child = field(default_factory=Child, metadata={"type": "Element", "namespace": "urn:child"})


bad = 0
# the user binds ns1 -> urn:zzz; the generator invents "ns1" for the 2nd namespace it meets (len(ns_map) == 1)
for writer in filter(None, (XmlEventWriter, LxmlEventWriter)):
    try:
        xml = XmlSerializer(writer=writer).render(Root(), ns_map={"ns1": "urn:root"})
        root = ET.fromstring(xml)
        ok = root.tag == "{urn:root}Root" and root.attrib == {"{urn:attr}a": "1"} and root[0].tag == "{urn:child}c"
        print(writer.__name__, "ok" if ok else "WRONG NAMES", xml)
        bad += not ok
    except Exception as exc:  # noqa: BLE001
        print(writer.__name__, "FAILED", type(exc).__name__, exc)
        bad += 1
sys.exit(1 if bad else 0)
