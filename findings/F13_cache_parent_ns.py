"""F13 (C14.R1): XmlContext.build memoises by class only, but the metadata depends on parent_ns (and globalns).

A class without its own Meta.namespace inherits the namespace of the element it is nested in. With a shared
context the first parent wins: a later document in another namespace is rejected / serialized in the wrong namespace,
while a fresh context handles it.

Run: /venv/bin/python findings/F13_cache_parent_ns.py   (exit 1 = defect present)
"""
import sys
from dataclasses import dataclass, field
from typing import Optional

from xsdata.formats.dataclass.context import XmlContext
from xsdata.formats.dataclass.parsers import XmlParser
from xsdata.formats.dataclass.serializers import XmlSerializer


@dataclass
class Child:  # no Meta: inherits the parent's namespace
    v: Optional[str] = field(default=None, metadata={"type": "Element"})


@dataclass
class A1:
    class Meta:
        namespace = "urn:a"

    c: Optional[Child] = field(default=None, metadata={"type": "Element"})


@dataclass
class A2:
    class Meta:
        namespace = "urn:b"

    c: Optional[Child] = field(default=None, metadata={"type": "Element"})


doc_a = '<A1 xmlns="urn:a"><c><v>1</v></c></A1>'
doc_b = '<A2 xmlns="urn:b"><c><v>2</v></c></A2>'
fresh = XmlParser(context=XmlContext()).from_string(doc_b, A2)
shared = XmlContext()
XmlParser(context=shared).from_string(doc_a, A1)
bad = 0
try:
    again = XmlParser(context=shared).from_string(doc_b, A2)
    print("shared:", again, "fresh:", fresh)
    bad += again != fresh
except Exception as exc:  # noqa: BLE001
    print("shared context REJECTS a document a fresh context accepts:", type(exc).__name__, exc)
    bad += 1
x_fresh = XmlSerializer(context=XmlContext()).render(A2(c=Child(v="2")))
x_shared = XmlSerializer(context=shared).render(A2(c=Child(v="2")))
print("fresh :", x_fresh.splitlines()[-1])
print("shared:", x_shared.splitlines()[-1])
bad += x_fresh != x_shared
sys.exit(1 if bad else 0)
