"""F23 (C15.R1): the native handler leaks LookupError / ValueError for documents that declare an unknown or multi-byte encoding.
F24 (C10.R6): PrimitiveNode.child / StandardNode.child reject a child element of a simple-typed element with XmlContextError
also when fail_on_unknown_properties is False (the option promises that unknown elements do not change the result).

Run: /venv/bin/python findings/F23_F24_more_leaks.py   (exit code = number of deviations)
"""
import sys
from dataclasses import dataclass, field
from typing import Optional

from xsdata.exceptions import ConverterError, ParserError, XmlContextError
from xsdata.formats.dataclass.parsers import XmlParser
from xsdata.formats.dataclass.parsers.config import ParserConfig
from xsdata.formats.dataclass.parsers.handlers import XmlEventHandler

try:
    from xsdata.formats.dataclass.parsers.handlers import LxmlEventHandler
except ImportError:  # pragma: no cover
    LxmlEventHandler = None


@dataclass
class R:
    v: Optional[int] = field(default=None, metadata={"type": "Element"})


bad = 0
for handler in filter(None, (XmlEventHandler, LxmlEventHandler)):
    for enc in ("bogus", "big5", "utf-16"):
        doc = f'<?xml version="1.0" encoding="{enc}"?><R><v>1</v></R>'.encode("ascii")
        try:
            print(handler.__name__, enc, XmlParser(handler=handler).from_bytes(doc, R))
        except (ParserError, ConverterError, XmlContextError) as exc:
            print(handler.__name__, enc, "documented", type(exc).__name__, str(exc)[:50])
        except Exception as exc:  # noqa: BLE001
            print(handler.__name__, enc, "F23 LEAKED", type(exc).__name__, str(exc)[:60])
            bad += 1
    cfg = ParserConfig(fail_on_unknown_properties=False)
    base = XmlParser(handler=handler, config=cfg).from_string("<R><v>1</v></R>", R)
    try:
        got = XmlParser(handler=handler, config=cfg).from_string("<R><v>1<unknown/></v></R>", R)
        print(handler.__name__, "unknown child of a simple element:", got, "(same)" if got == base else "(CHANGED)")
        bad += got != base
    except Exception as exc:  # noqa: BLE001
        print(handler.__name__, "F24 unknown child of a simple element with fail_on_unknown_properties=False ->", type(exc).__name__, exc)
        bad += 1
sys.exit(bad)
