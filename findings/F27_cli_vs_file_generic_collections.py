"""F27 (fixed by d0a2f85): the same options through the CLI route (GeneratorOutput.update) and the config-file / constructor route gave different configurations.

Run with stand-in click / toposort modules:  PYTHONPATH=/verif/tools/stubs:/repo /venv/bin/python F27_cli_vs_file_generic_collections.py
Before the fix: "cli route: True True   file/ctor route: False True" (exit 1).  After: both False True (exit 0).
"""
import sys
import warnings

warnings.simplefilter("ignore")
from xsdata.models.config import GeneratorOutput, OutputFormat

a = GeneratorOutput()
a.update(**{"generic_collections": True, "format.frozen": True})
b = GeneratorOutput(generic_collections=True, format=OutputFormat(frozen=True))
print("cli route:", a.generic_collections, a.format.frozen, "  file/ctor route:", b.generic_collections, b.format.frozen)
sys.exit(0 if (a.generic_collections, a.format.frozen) == (b.generic_collections, b.format.frozen) else 1)
