"""F25 (C03.R11): a qualified attribute whose namespace is bound only to the DEFAULT prefix gets no prefix from the
native writer (default namespaces do not apply to attributes, so it is written unqualified); the lxml writer invents one.
Also: a QName *value* in the default namespace is written unprefixed, and resolves to another namespace when xmlns="" is reset.

Run: /venv/bin/python findings/F25_default_ns_attribute.py   (exit 1 = defect present)
"""
import sys
from dataclasses import dataclass, field
from typing import Optional
from xml.etree import ElementTree as ET
from xml.etree.ElementTree import QName

from xsdata.formats.dataclass.serializers import XmlSerializer
from xsdata.formats.dataclass.serializers.writers import XmlEventWriter

try:
    from xsdata.formats.dataclass.serializers.writers import LxmlEventWriter
except ImportError:  # pragma: no cover
    LxmlEventWriter = None


@dataclass
class A:
    class Meta:
        namespace = "urn:a"

    x: str = field(default="1", metadata={"type": "Attribute", "namespace": "urn:a"})


@dataclass
class Q:
    class Meta:
        namespace = "urn:doc"

    t: Optional[QName] = field(default=None, metadata={"type": "Element", "namespace": ""})


bad = 0
for writer in filter(None, (XmlEventWriter, LxmlEventWriter)):
    xml = XmlSerializer(writer=writer).render(A(), ns_map={None: "urn:a"})
    root = ET.fromstring(xml)
    ok = root.attrib == {"{urn:a}x": "1"}
    print(writer.__name__, "attr:", "ok" if ok else f"WRONG attrib={root.attrib}", xml.splitlines()[-1])
    bad += not ok
    xml = XmlSerializer(writer=writer).render(Q(t=QName("urn:doc", "v")), ns_map={None: "urn:doc"})
    print(writer.__name__, "qname:", xml.splitlines()[-1])
    # resolve the QName text against the in-scope declarations of <t>
    import re
    m = re.search(r"<t([^>]*)>([^<]*)</t>", xml)
    decl, text = m.group(1), m.group(2)
    if ":" not in text and 'xmlns=""' in decl:
        print("   QName text", repr(text), "is unprefixed under xmlns=\"\": it denotes {}v, not {urn:doc}v")
        bad += 1
sys.exit(1 if bad else 0)
