"""F10 (C07.R2): class.jinja2 / module.jinja2 write names and namespaces between double quotes without escaping.

jinja2 is not installed in this sandbox, so the template engine itself cannot run.  This script drives the REAL pipeline
(DictMapper / SchemaParser+SchemaMapper -> ClassContainer.process) up to the template, takes the exact template lines
from class.jinja2 / module.jinja2, and performs only Jinja's `{{ expr }}` substitution by hand (the generator's
Environment is created with autoescape=False, so substitution is verbatim).  The resulting Python text is compiled.

Run: PYTHONPATH=/verif/tools/stubs /venv/bin/python findings/F10_unescaped_template_strings.py   (exit 1 = defect present)
"""
import re
import sys
import types
from pathlib import Path

sys.modules.setdefault("jinja2", types.SimpleNamespace(Environment=object, FileSystemLoader=object))

import xsdata
from xsdata.codegen.container import ClassContainer
from xsdata.codegen.mappers.dict import DictMapper
from xsdata.formats.dataclass.filters import Filters
from xsdata.models.config import GeneratorConfig

tpl_dir = Path(xsdata.__file__).parent / "formats" / "dataclass" / "templates"
class_tpl = (tpl_dir / "class.jinja2").read_text()
assert 'name = "{{ local_name }}"' in class_tpl and 'namespace = "{{ obj.namespace }}"' in class_tpl
gen_src = (Path(xsdata.__file__).parent / "formats" / "dataclass" / "generator.py").read_text()
assert "autoescape=False" in gen_src

config = GeneratorConfig()
container = ClassContainer(config)
# a well-formed JSON sample whose key contains a double quote
container.extend(DictMapper.map({'we"ird': {"x": 1}}, "doc", "sample.json"))
container.process()
filters = Filters(config)
bad = 0
for obj in [c for top in container for c in [top, *top.inner]]:
    class_name = filters.class_name(obj.name)
    local_name = obj.meta_name or obj.name
    if class_name == local_name:
        continue
    # the two template lines, with Jinja's verbatim substitution
    rendered = f"class {class_name}:\n    class Meta:\n        name = \"{local_name}\"\n"
    try:
        compile(rendered, "<generated>", "exec")
        print("ok     :", repr(local_name))
    except SyntaxError as exc:
        print("BROKEN :", repr(local_name), "->", rendered.splitlines()[-1].strip(), "|", exc.msg)
        bad += 1
sys.exit(1 if bad else 0)
