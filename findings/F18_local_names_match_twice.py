"""F18 (C15.R1 / C14 / C19.R1): XmlContext.local_names_match evicts an unsupported class with list.remove().

The second call for the same class raises ValueError (the class is no longer in the list), so the outcome
of a decode depends on what the shared context was asked before; the removal also mutates a list that
other threads may be iterating.

Run: /venv/bin/python findings/F18_local_names_match_twice.py   (exit 1 = defect present)
"""
import sys
from dataclasses import dataclass, field
from typing import Set

from xsdata.formats.dataclass.context import XmlContext


@dataclass
class Unsupported:
    class Meta:
        name = "unsupported-f18"

    x: Set[int] = field(default_factory=set)  # Set[...] is not a supported field type


ctx = XmlContext()
ctx.build_xsi_cache()
bad = 0
for attempt in (1, 2, 3):
    try:
        print(attempt, ctx.local_names_match({"x"}, Unsupported))
    except Exception as exc:  # noqa: BLE001
        print(attempt, "LEAKED", type(exc).__name__, exc)
        bad += 1
sys.exit(1 if bad else 0)
