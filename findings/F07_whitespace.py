"""F7 / F7b (C05.R5, C09.R1): XmlDuration and the formatted date/time converters reject surrounding whitespace.

XSD applies whiteSpace=collapse to every non-string datatype, and all sibling converters strip.
Run: /venv/bin/python findings/F07_whitespace.py   (exit 1 = defect present)
"""
import sys
import warnings
from dataclasses import dataclass, field
from datetime import date
from typing import Optional

from xsdata.formats.converter import converter
from xsdata.formats.dataclass.parsers import XmlParser
from xsdata.models.datatype import XmlDuration, XmlPeriod

bad = 0
for tp, text in ((XmlDuration, " P1D "), (XmlDuration, "\nPT5M\t"), (XmlPeriod, " --05 ")):
    try:
        print(tp.__name__, repr(text), "->", repr(converter.deserialize(text, [tp])))
    except Exception as exc:  # noqa: BLE001
        print(tp.__name__, repr(text), "REJECTED", type(exc).__name__, exc)
        bad += 1
if str(XmlDuration(" P1D ")) != "P1D" if not bad else False:
    print("XmlDuration keeps the whitespace in its text:", repr(str(XmlDuration(" P1D "))))
    bad += 1


@dataclass
class D:
    d: Optional[date] = field(default=None, metadata={"type": "Element", "format": "%Y-%m-%d"})


with warnings.catch_warnings(record=True) as w:
    warnings.simplefilter("always")
    a = XmlParser().from_string("<D><d>2020-01-02</d></D>", D)
    b = XmlParser().from_string("<D><d>\n  2020-01-02\n</d></D>", D)
print("date with format:", a, b, [str(x.message)[:60] for x in w])
if a != b:
    print("SURROUNDING WHITESPACE CHANGES THE PARSED OBJECT")
    bad += 1
sys.exit(1 if bad else 0)
