"""F5 (C15.R1/R2/R4): JsonParser / DictDecoder leak JSONDecodeError, AttributeError, TypeError, AssertionError.

Run: /venv/bin/python findings/F05_json_shapes.py   (exit 1 = defect present)
"""
import sys
from dataclasses import dataclass, field
from typing import Optional

from xsdata.exceptions import ConverterError, ParserError, XmlContextError
from xsdata.formats.dataclass.models.generics import DerivedElement
from xsdata.formats.dataclass.parsers import DictDecoder, JsonParser


@dataclass
class B:
    a: Optional[int] = field(default=None, metadata={"type": "Element"})


@dataclass
class A:
    x: Optional[int] = field(default=None, metadata={"type": "Element"})
    b: Optional[B] = field(default=None, metadata={"type": "Element"})
    attrs: dict = field(default_factory=dict, metadata={"type": "Attributes"})


cases = [
    ("truncated json", lambda: JsonParser().from_string('{"x": ', A)),
    ("bad utf-8", lambda: JsonParser().from_bytes(b'{"x": "\xff"}', A)),
    ("scalar document", lambda: JsonParser().from_string('"abc"', A)),
    ("scalar in list", lambda: JsonParser().from_string('[1, 2]', list[A])),
    ("scalar document, no class", lambda: JsonParser().from_string('"abc"')),
    ("list of scalars, no class", lambda: JsonParser().from_string('[1]')),
    ("object for an int field", lambda: JsonParser().from_string('{"x": {"a": 1}}', A)),
    ("number for attributes map", lambda: JsonParser().from_string('{"attrs": 5}', A)),
    ("list for attributes map", lambda: JsonParser().from_string('{"attrs": [1]}', A)),
    ("derived wrapper with scalar value", lambda: DictDecoder().decode({"qname": "a", "type": None, "value": 5}, DerivedElement)),
    ("derived wrapper with scalar value, typed", lambda: DictDecoder().decode({"qname": "a", "type": None, "value": 5}, A)),
]
bad = 0
for name, fn in cases:
    try:
        r = fn()
        print(f"{name}: returned {r!r}")
    except (ParserError, ConverterError, XmlContextError) as exc:
        print(f"{name}: documented {type(exc).__name__}: {str(exc)[:70]}")
    except Exception as exc:  # noqa: BLE001
        print(f"{name}: LEAKED {type(exc).__name__}: {str(exc)[:70]}")
        bad += 1
sys.exit(1 if bad else 0)
