"""F21 (C08.R6 / C09.R4): WrapperNode takes its parent's in-scope map and drops the wrapper element's own namespace declarations.

The native handler rebuilds each child's in-scope map from queue[-1].ns_map, so a prefix declared on the wrapper element is
unknown to the wrapped items; the lxml handler (element.nsmap) resolves it: the two handlers disagree.

Run: /venv/bin/python findings/F21_wrapper_ns_map.py   (exit 1 = defect present)
"""
import sys
import warnings
from dataclasses import dataclass, field
from typing import List
from xml.etree.ElementTree import QName

from xsdata.formats.dataclass.parsers import XmlParser
from xsdata.formats.dataclass.parsers.handlers import XmlEventHandler

try:
    from xsdata.formats.dataclass.parsers.handlers import LxmlEventHandler
except ImportError:  # pragma: no cover
    LxmlEventHandler = None


@dataclass
class Root:
    item: List[QName] = field(default_factory=list, metadata={"type": "Element", "wrapper": "items"})


doc = '<Root><items xmlns:p="urn:x"><item>p:a</item><item>p:b</item></items></Root>'
expected = Root(item=[QName("urn:x", "a"), QName("urn:x", "b")])
bad = 0
for handler in filter(None, (XmlEventHandler, LxmlEventHandler)):
    with warnings.catch_warnings(record=True) as w:
        warnings.simplefilter("always")
        obj = XmlParser(handler=handler).from_string(doc, Root)
    ok = obj == expected
    print(handler.__name__, "ok" if ok else f"WRONG {obj} warnings={[str(x.message)[:50] for x in w]}")
    bad += not ok
sys.exit(1 if bad else 0)
