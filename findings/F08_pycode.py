"""F8 (C18.R3/R4/R5): PycodeSerializer output does not evaluate back to the object for nested enums, tuple/set fields and stdlib date/time values.

Run: /venv/bin/python findings/F08_pycode.py   (exit 1 = defect present)
"""
import datetime
import sys
from dataclasses import dataclass, field
from enum import Enum
from typing import Optional, Tuple

from xsdata.formats.dataclass.serializers import PycodeSerializer

__name__ = "f08_models"
sys.modules["f08_models"] = sys.modules.get("__main__")


@dataclass
class Root:
    class Kind(Enum):
        A = "a"

    kind: Optional["Root.Kind"] = field(default=None, metadata={"type": "Attribute"})


@dataclass(frozen=True)
class Frozen:
    items: Tuple[int, ...] = field(default_factory=tuple, metadata={"type": "Element"})


@dataclass
class Dates:
    d: Optional[datetime.date] = field(default=None, metadata={"type": "Element", "format": "%Y-%m-%d"})
    t: Optional[datetime.time] = field(default=None, metadata={"type": "Element", "format": "%H:%M"})
    dt: Optional[datetime.datetime] = field(default=None, metadata={"type": "Element", "format": "%Y"})


bad = 0
for obj in (Root(kind=Root.Kind.A), Frozen(items=(1, 2)), Dates(d=datetime.date(2020, 1, 2), t=datetime.time(1, 2), dt=datetime.datetime(2020, 1, 1))):
    src = PycodeSerializer().render(obj, "obj")
    ns: dict = {}
    try:
        exec(src, ns)  # noqa: S102
        ok = ns["obj"] == obj
        print(type(obj).__name__, "equal" if ok else f"NOT EQUAL: {ns['obj']!r} != {obj!r}")
        bad += not ok
    except Exception as exc:  # noqa: BLE001
        print(type(obj).__name__, "FAILED", type(exc).__name__, exc, "\n" + src)
        bad += 1
sys.exit(1 if bad else 0)
