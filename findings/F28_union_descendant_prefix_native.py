"""F28 (fixed by 031c2ef): a prefix declared on an intermediate element inside a union-typed field was lost by the native handler.

PYTHONPATH=/repo /venv/bin/python F28_union_descendant_prefix_native.py  -> exit 0 when all four handler/source combinations give the same object.
"""
from dataclasses import dataclass, field
from typing import Optional, Union
from xml.etree.ElementTree import QName
from xsdata.formats.dataclass.parsers import XmlParser
from xsdata.formats.dataclass.parsers.handlers import LxmlEventHandler, XmlEventHandler
from xsdata.formats.dataclass.context import XmlContext

@dataclass
class Inner:
    ref: Optional[QName] = field(default=None, metadata={"type": "Element"})

@dataclass
class A:
    inner: Optional[Inner] = field(default=None, metadata={"type": "Element"})
    a: Optional[str] = field(default=None, metadata={"type": "Attribute"})

@dataclass
class B:
    inner: Optional[Inner] = field(default=None, metadata={"type": "Element"})
    b: Optional[int] = field(default=None, metadata={"type": "Attribute"})

@dataclass
class Root:
    item: Optional[Union[A, B]] = field(default=None, metadata={"type": "Element"})

doc = '<Root><item a="x"><inner xmlns:p="urn:p"><ref>p:thing</ref></inner></item></Root>'
import io, sys
results = []
for h in (LxmlEventHandler, XmlEventHandler):
    for src in ("str", "bytesio"):
        p = XmlParser(handler=h, context=XmlContext())
        try:
            r = p.from_string(doc, Root) if src == "str" else p.parse(io.BytesIO(doc.encode()), Root)
            print(h.__name__, src, r)
            results.append(repr(r))
        except Exception as e:
            print(h.__name__, src, "ERR", type(e).__name__, e)
            results.append("ERR")
sys.exit(0 if len(set(results)) == 1 and "ERR" not in results else 1)
