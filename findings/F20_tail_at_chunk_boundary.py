"""F20 (C11 / C08): both event handlers read element.tail at the element's END event of a streaming parser.

iterparse only guarantees the tail after the *next* event: when the parser's read chunk ends right after an end tag the
tail is still None at that moment and is lost (mixed content in documents larger than one read chunk).

Run: /venv/bin/python findings/F20_tail_at_chunk_boundary.py   (exit 1 = defect present)
"""
import sys
from dataclasses import dataclass, field
from typing import List

from xsdata.formats.dataclass.parsers import XmlParser
from xsdata.formats.dataclass.parsers.handlers import XmlEventHandler

try:
    from xsdata.formats.dataclass.parsers.handlers import LxmlEventHandler
except ImportError:  # pragma: no cover
    LxmlEventHandler = None


@dataclass
class Doc:
    content: List[object] = field(default_factory=list, metadata={"type": "Wildcard", "namespace": "##any", "mixed": True})


n = 40000
xml = "<Doc>" + "".join(f"<b>{i}</b>t{i};" for i in range(n)) + "</Doc>"
bad = 0
for handler in filter(None, (XmlEventHandler, LxmlEventHandler)):
    obj = XmlParser(handler=handler).from_bytes(xml.encode(), Doc)
    tails = [getattr(x, "tail", None) for x in obj.content if not isinstance(x, str)]
    strs = [x for x in obj.content if isinstance(x, str)]
    lost = sum(1 for t in tails if not t) - len(strs)
    missing = [i for i, t in enumerate(tails) if t != f"t{i};"]
    print(handler.__name__, "elements:", len(tails), "tails lost:", len(missing), "first lost at:", missing[:5])
    bad += bool(missing)
sys.exit(1 if bad else 0)
