"""F22 (C15.R4): DictDecoder.bind_dataclass unwraps value[var.local_name] for every wrapper field, also when the key that
matched was the field's own name (the unwrapped spelling): a list / scalar is then subscripted with a str -> TypeError.

Run: /venv/bin/python findings/F22_json_wrapper_unwrapped.py   (exit 1 = defect present)
"""
import sys
from dataclasses import dataclass, field
from typing import List

from xsdata.exceptions import ConverterError, ParserError, XmlContextError
from xsdata.formats.dataclass.parsers import JsonParser
from xsdata.formats.dataclass.serializers import JsonSerializer


@dataclass
class Root:
    item: List[int] = field(default_factory=list, metadata={"type": "Element", "name": "item", "wrapper": "items"})


good = JsonSerializer().render(Root(item=[1, 2]))
assert JsonParser().from_string(good, Root) == Root(item=[1, 2]), good
bad = 0
for doc in ('{"item": [1, 2]}', '{"items": [1, 2]}', '{"items": {"item": 5}}', '{"items": 7}'):
    try:
        print(doc, "->", JsonParser().from_string(doc, Root))
    except (ParserError, ConverterError, XmlContextError) as exc:
        print(doc, "-> documented", type(exc).__name__, str(exc)[:60])
    except Exception as exc:  # noqa: BLE001
        print(doc, "-> LEAKED", type(exc).__name__, exc)
        bad += 1
sys.exit(1 if bad else 0)
