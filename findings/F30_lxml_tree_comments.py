"""F30 (C09.R2 / C08.R3): the lxml handler walked a caller-supplied lxml tree / element as it is.  A tree parsed with lxml's default
parser keeps comments and processing instructions; iterwalk never yields them and the text after them (their tail) was lost:
<title>Hello<!-- c --> World</title> bound as 'Hello' from the tree and as 'Hello World' from the same bytes.
exit 1 = defect present, exit 0 = repaired."""
import sys
from dataclasses import dataclass, field

from lxml import etree

from xsdata.formats.dataclass.parsers import XmlParser
from xsdata.formats.dataclass.parsers.handlers import LxmlEventHandler


@dataclass
class Doc:
    class Meta:
        name = "doc"
    title: str = field(metadata={"type": "Element"})


xml = b"<doc><title>Hello<!-- c --> World<?p i?>!</title></doc>"
from_bytes = XmlParser(handler=LxmlEventHandler).from_bytes(xml, Doc)
from_tree = XmlParser(handler=LxmlEventHandler).parse(etree.fromstring(xml), Doc)
from_etree = XmlParser(handler=LxmlEventHandler).parse(etree.ElementTree(etree.fromstring(xml)), Doc)
print(from_bytes, from_tree, from_etree)
ok = from_bytes == from_tree == from_etree and from_bytes.title == "Hello World!"
print("repaired" if ok else "DEFECT: a comment / PI in a caller-supplied lxml tree changed the parsed object")
sys.exit(0 if ok else 1)
